// vcheck is the single CLI of the verification engine. It is built in several
// variants (plain, maps, sched, steps) that differ only in the -overlay used.
package main

import (
	_ "verif/checks"
	"verif/core"
)

func main() { core.Main() }
