package gen

import (
	"fmt"
	"strings"

	"verif/ref"
)

// Size sweeps. The other families are exhaustive over SMALL instances; a slip that sits behind a size threshold (a sort that
// changes algorithm above 12 elements, a buffer of 1024 bytes, a fast path for short lists, a loop that treats the middle of
// a long list differently) is out of their reach by construction. A sweep scales ONE dimension of a model through every size
// up to 17 and then through the neighbourhoods of the thresholds such code commonly has, with contents whose order is
// deliberately not sorted, so that any reordering, truncation or mix-up shows.

// SweepSizes are the sizes every dimension is scaled to.
var SweepSizes = []int{4, 5, 6, 7, 8, 9, 10, 11, 12, 13, 14, 15, 16, 17, 20, 24, 31, 32, 33, 49, 50, 51, 64, 65, 100, 128}

// SweepSizesSmall is the quick subset for the more expensive consumers.
var SweepSizesSmall = []int{4, 6, 8, 12, 13, 14, 17, 33, 51, 65, 100}

// scramble is a fixed permutation of 0..n-1 that is neither sorted nor reversed (multiplication by a unit mod n).
func scramble(n int) []int {
	step := 1
	for _, s := range []int{7, 5, 3, 11, 13} {
		if gcd(s, n) == 1 && s < n {
			step = s
			break
		}
	}
	p := make([]int, n)
	for i := range p {
		p[i] = (i*step + n/3) % n
	}
	return p
}

func gcd(a, b int) int {
	for b != 0 {
		a, b = b, a%b
	}
	return a
}

func sweepUser() []ref.Restriction { return []ref.Restriction{{Type: "user"}} }

// SweepOperands: relation a is a union / intersection of n operands - n-1 computed relations in scrambled order and the
// direct assignment at position pos (0 = DSL order).
func SweepOperands(kind ref.Kind, n, pos int) Tagged {
	doc := ref.TypeDef{Name: "doc"}
	var ch []*ref.Rewrite
	others := scramble(n - 1)
	for i, k := 0, 0; i < n; i++ {
		if i == pos {
			ch = append(ch, ref.T())
			continue
		}
		ch = append(ch, ref.C(fmt.Sprintf("x%03d", others[k])))
		k++
	}
	doc.Rels = append(doc.Rels, ref.Relation{Name: "a", Rw: &ref.Rewrite{Kind: kind, Ch: ch}, Restr: sweepUser()})
	// every operand reaches user and a terminal type of its own: a lost or doubled operand shows in the type sets
	types := []ref.TypeDef{{Name: "user"}}
	for i := 0; i < n-1; i++ {
		own := fmt.Sprintf("u%03d", i)
		types = append(types, ref.TypeDef{Name: own})
		doc.Rels = append(doc.Rels, ref.Relation{Name: fmt.Sprintf("x%03d", i), Rw: ref.T(), Restr: []ref.Restriction{{Type: "user"}, {Type: own}}})
	}
	op := map[ref.Kind]string{ref.Union: "union", ref.Inter: "intersection"}[kind]
	return Tagged{Tag: fmt.Sprintf("sweep: %s of %d operands, direct assignment at %d", op, n, pos),
		M: &ref.Model{Schema: "1.1", Types: append(types, doc)}}
}

// SweepRelations: one type with n relations declared in scrambled order.
func SweepRelations(n int) Tagged {
	doc := ref.TypeDef{Name: "doc"}
	for _, x := range scramble(n) {
		doc.Rels = append(doc.Rels, ref.Relation{Name: fmt.Sprintf("r%03d", x), Rw: ref.T(), Restr: sweepUser()})
	}
	return Tagged{Tag: fmt.Sprintf("sweep: %d relations in one type", n), M: &ref.Model{Schema: "1.1", Types: []ref.TypeDef{{Name: "user"}, doc}}}
}

// SweepTypes: n types in scrambled order, each with a relation that refers to its predecessor.
func SweepTypes(n int) Tagged {
	m := &ref.Model{Schema: "1.1", Types: []ref.TypeDef{{Name: "user"}}}
	for _, x := range scramble(n) {
		m.Types = append(m.Types, ref.TypeDef{Name: fmt.Sprintf("t%03d", x), Rels: []ref.Relation{
			{Name: "member", Rw: ref.T(), Restr: []ref.Restriction{{Type: "user"}, {Type: fmt.Sprintf("t%03d", (x+1)%n), Relation: "member"}}}}})
	}
	return Tagged{Tag: fmt.Sprintf("sweep: %d types", n), M: m}
}

// SweepConditions: n conditions in scrambled order, the first few used by restrictions.
func SweepConditions(n int) Tagged {
	m := &ref.Model{Schema: "1.1"}
	var rs []ref.Restriction
	for i, x := range scramble(n) {
		name := fmt.Sprintf("c%03d", x)
		m.Conds = append(m.Conds, ref.Condition{Name: name, Params: []ref.Param{{Name: fmt.Sprintf("p%d", x), Type: "int"}}, Expr: fmt.Sprintf("p%d < %d", x, x)})
		if i < 5 {
			rs = append(rs, ref.Restriction{Type: "user", Condition: name})
		}
	}
	m.Types = []ref.TypeDef{{Name: "user"}, {Name: "doc", Rels: []ref.Relation{{Name: "r", Rw: ref.T(), Restr: rs}}}}
	return Tagged{Tag: fmt.Sprintf("sweep: %d conditions", n), M: m}
}

// SweepParams: one condition with n parameters whose types cycle through all 24 parameter types (so that the same container
// occurs with different element types), names in scrambled order.
func SweepParams(n int) Tagged {
	all := AllParamTypes()
	c := ref.Condition{Name: "c", Expr: "p000 == p000"}
	for i, x := range scramble(n) {
		p := all[(i*5+3)%len(all)]
		p.Name = fmt.Sprintf("p%03d", x)
		c.Params = append(c.Params, p)
	}
	return Tagged{Tag: fmt.Sprintf("sweep: %d condition parameters", n), M: &ref.Model{Schema: "1.1", Types: baseTypes(), Conds: []ref.Condition{c}}}
}

// SweepRestrictions: one direct assignment with n entries (types, wildcards, usersets, conditioned ones) in scrambled order;
// from 64 entries on the line is longer than 1024 bytes.
func SweepRestrictions(n int) Tagged {
	m := &ref.Model{Schema: "1.1", Types: []ref.TypeDef{{Name: "user"}}, Conds: []ref.Condition{{Name: "k", Params: []ref.Param{{Name: "x", Type: "int"}}, Expr: "x < 1"}}}
	var rs []ref.Restriction
	for i, x := range scramble(n) {
		t := fmt.Sprintf("team%03d", x)
		m.Types = append(m.Types, ref.TypeDef{Name: t, Rels: []ref.Relation{{Name: "member", Rw: ref.T(), Restr: sweepUser()}}})
		switch i % 4 {
		case 0:
			rs = append(rs, ref.Restriction{Type: t, Relation: "member"})
		case 1:
			rs = append(rs, ref.Restriction{Type: t})
		case 2:
			rs = append(rs, ref.Restriction{Type: t, Wildcard: true})
		default:
			rs = append(rs, ref.Restriction{Type: t, Relation: "member", Condition: "k"})
		}
	}
	// the long line stands in the middle: declarations before and after it
	m.Types = append(m.Types, ref.TypeDef{Name: "doc", Rels: []ref.Relation{
		{Name: "before", Rw: ref.T(), Restr: sweepUser()},
		{Name: "viewer", Rw: ref.T(), Restr: rs},
		{Name: "after", Rw: ref.U(ref.C("viewer"), ref.C("before"))},
	}}, ref.TypeDef{Name: "last", Rels: []ref.Relation{{Name: "r", Rw: ref.T(), Restr: sweepUser()}}})
	return Tagged{Tag: fmt.Sprintf("sweep: %d type restrictions in one list", n), M: m}
}

// SweepLongNames: type, relation and condition names of length l.
func SweepLongNames(l int) Tagged {
	long := func(prefix string) string { return prefix + strings.Repeat("n", l-len(prefix)-1) + "z" }
	tn, rn, cn := long("t_"), long("r_"), long("c_")
	m := &ref.Model{Schema: "1.1", Types: []ref.TypeDef{{Name: "user"},
		{Name: tn, Rels: []ref.Relation{
			{Name: rn, Rw: ref.T(), Restr: []ref.Restriction{{Type: "user", Condition: cn}, {Type: tn, Relation: rn}}},
			{Name: "short", Rw: ref.U(ref.C(rn), ref.TT(rn, rn))},
		}},
		{Name: "after", Rels: []ref.Relation{{Name: "r", Rw: ref.T(), Restr: sweepUser()}}}},
		Conds: []ref.Condition{{Name: cn, Params: []ref.Param{{Name: "x", Type: "int"}}, Expr: "x < 1"}}}
	return Tagged{Tag: fmt.Sprintf("sweep: names of %d characters", l), M: m}
}

// SweepLongExpr: a one-line condition expression of about l characters, with declarations after it.
func SweepLongExpr(l int) Tagged {
	var sb strings.Builder
	sb.WriteString("x < 0")
	for i := 1; sb.Len() < l; i++ {
		fmt.Fprintf(&sb, " || x == %d", i)
	}
	m := &ref.Model{Schema: "1.1", Types: baseTypes(ref.TypeDef{Name: "doc", Rels: []ref.Relation{{Name: "r", Rw: ref.T(), Restr: []ref.Restriction{{Type: "user", Condition: "a_long"}, {Type: "user", Condition: "z_after"}}}}}),
		Conds: []ref.Condition{
			{Name: "a_long", Params: []ref.Param{{Name: "x", Type: "int"}}, Expr: sb.String()},
			{Name: "z_after", Params: []ref.Param{{Name: "y", Type: "string"}}, Expr: "y == \"z\""},
		}}
	return Tagged{Tag: fmt.Sprintf("sweep: condition expression of %d characters", sb.Len()), M: m}
}

// SweepModelsDSL returns the DSL-expressible sweeps.
func SweepModelsDSL(sizes []int) []Tagged {
	var out []Tagged
	for _, n := range sizes {
		out = append(out, SweepOperands(ref.Union, n, 0), SweepOperands(ref.Inter, n, 0),
			SweepRelations(n), SweepTypes(n), SweepConditions(n), SweepParams(n), SweepRestrictions(n))
	}
	for _, n := range sizes {
		if n <= 24 {
			out = append(out, SweepDepth("right", n), SweepDepth("left", n), SweepDepth("alternating", n))
		}
		out = append(out, SweepEdgeConditions(n))
	}
	for _, l := range []int{64, 255, 256, 600, 1100} {
		out = append(out, SweepLongNames(l))
	}
	for _, l := range []int{300, 1000, 1100, 2100, 4200} {
		out = append(out, SweepLongExpr(l))
	}
	return out
}

// SweepModelsJSON adds the sweeps only JSON / protobuf can express: the direct assignment second, in the middle and last.
func SweepModelsJSON(sizes []int) []Tagged {
	out := SweepModelsDSL(sizes)
	for _, n := range sizes {
		for _, pos := range []int{1, 2, n / 2, n - 2, n - 1} {
			out = append(out, SweepOperands(ref.Union, n, pos), SweepOperands(ref.Inter, n, pos))
		}
	}
	return out
}

// SweepModular: n items of one kind (relations of one type, types, conditions) attributed to module and file groups in a
// cycle - three attributed groups, one with a module but no file, and unattributed items - so that many items tie on
// (module, file) and only the name decides; names run against the group order.
func SweepModular(kind string, n int) Tagged {
	groups := []struct{ mod, file string }{{"mb", "b.fga"}, {"", ""}, {"ma", "z.fga"}, {"ma", "a.fga"}, {"mc", ""}}
	m := &ref.Model{Schema: "1.2"}
	base := ref.TypeDef{Name: "user", Module: "ma", File: "a.fga"}
	switch kind {
	case "relations":
		doc := ref.TypeDef{Name: "doc", Module: "ma", File: "a.fga"}
		for i, x := range scramble(n) {
			g := groups[i%len(groups)]
			doc.Rels = append(doc.Rels, ref.Relation{Name: fmt.Sprintf("r%03d", x), Rw: ref.T(), Restr: sweepUser(), Module: g.mod, File: g.file})
		}
		m.Types = []ref.TypeDef{base, doc}
	case "types":
		m.Types = []ref.TypeDef{base}
		for i, x := range scramble(n) {
			g := groups[i%len(groups)]
			m.Types = append(m.Types, ref.TypeDef{Name: fmt.Sprintf("t%03d", x), Module: g.mod, File: g.file})
		}
	default:
		m.Types = []ref.TypeDef{base}
		for i, x := range scramble(n) {
			g := groups[i%len(groups)]
			m.Conds = append(m.Conds, ref.Condition{Name: fmt.Sprintf("c%03d", x), Module: g.mod, File: g.file,
				Params: []ref.Param{{Name: "x", Type: "int"}}, Expr: "x < 1"})
		}
	}
	return Tagged{Tag: fmt.Sprintf("sweep: modular model with %d %s over tied (module, file) groups", n, kind), M: m}
}

// ---- sweeps for the graph checks -------------------------------------------------------

// SweepChain: n relations in a chain - r0 is assignable to user and r<i> reaches r<i-1> by a userset restriction, a tuple to
// userset over p, or a computed reference: weights grow to n hops (or stay 1), declared in scrambled order.
func SweepChain(kind string, n int) Tagged {
	doc := ref.TypeDef{Name: "doc", Rels: []ref.Relation{{Name: "p", Rw: ref.T(), Restr: []ref.Restriction{{Type: "doc"}}}}}
	for _, x := range scramble(n) {
		name := fmt.Sprintf("r%03d", x)
		if x == 0 {
			doc.Rels = append(doc.Rels, ref.Relation{Name: name, Rw: ref.T(), Restr: sweepUser()})
			continue
		}
		prev := fmt.Sprintf("r%03d", x-1)
		switch kind {
		case "userset":
			doc.Rels = append(doc.Rels, ref.Relation{Name: name, Rw: ref.T(), Restr: []ref.Restriction{{Type: "doc", Relation: prev}}})
		case "ttu":
			doc.Rels = append(doc.Rels, ref.Relation{Name: name, Rw: ref.TT(prev, "p")})
		default:
			doc.Rels = append(doc.Rels, ref.Relation{Name: name, Rw: ref.C(prev)})
		}
	}
	return Tagged{Tag: fmt.Sprintf("sweep: chain of %d relations by %s", n, kind), M: &ref.Model{Schema: "1.1", Types: []ref.TypeDef{{Name: "user"}, doc}}}
}

// SweepParents: a tupleset with n parent types, each with relation b assignable to a terminal type of its own (every third
// one publicly), and doc#a: b from p.
func SweepParents(n int) Tagged {
	m := &ref.Model{Schema: "1.1"}
	var parents []ref.Restriction
	for i, x := range scramble(n) {
		u := fmt.Sprintf("u%03d", x)
		t := fmt.Sprintf("t%03d", x)
		r := ref.Restriction{Type: u}
		if i%3 == 2 {
			r.Wildcard = true
		}
		m.Types = append(m.Types, ref.TypeDef{Name: u}, ref.TypeDef{Name: t, Rels: []ref.Relation{{Name: "b", Rw: ref.T(), Restr: []ref.Restriction{r}}}})
		parents = append(parents, ref.Restriction{Type: t})
	}
	m.Types = append(m.Types, ref.TypeDef{Name: "doc", Rels: []ref.Relation{
		{Name: "p", Rw: ref.T(), Restr: parents},
		{Name: "a", Rw: ref.TT("b", "p")},
		{Name: "c", Rw: ref.U(ref.C("a"), ref.TT("b", "p"))},
	}})
	return Tagged{Tag: fmt.Sprintf("sweep: tupleset with %d parent types", n), M: m}
}

// SweepPublic: relation m assignable to n public types (scrambled), reached by two parents that add one of their own.
func SweepPublic(n int) Tagged {
	m := &ref.Model{Schema: "1.1"}
	var rs []ref.Restriction
	for _, x := range scramble(n) {
		u := fmt.Sprintf("u%03d", x)
		m.Types = append(m.Types, ref.TypeDef{Name: u})
		rs = append(rs, ref.Restriction{Type: u, Wildcard: true})
	}
	m.Types = append(m.Types, ref.TypeDef{Name: "a0"}, ref.TypeDef{Name: "zz"}, ref.TypeDef{Name: "doc", Rels: []ref.Relation{
		{Name: "m", Rw: ref.T(), Restr: rs},
		{Name: "v", Rw: ref.T(), Restr: []ref.Restriction{{Type: "doc", Relation: "m"}, {Type: "a0", Wildcard: true}}},
		{Name: "w", Rw: ref.U(ref.C("m"), ref.T()), Restr: []ref.Restriction{{Type: "zz", Wildcard: true}}},
	}})
	return Tagged{Tag: fmt.Sprintf("sweep: %d public types on one relation", n), M: m}
}

// SweepModelsGraph returns the sweeps the graph checks build.
func SweepModelsGraph(sizes []int) []Tagged {
	var out []Tagged
	for _, n := range sizes {
		out = append(out,
			SweepOperands(ref.Union, n, 0), SweepOperands(ref.Inter, n, n/2), SweepOperands(ref.Union, n, n-1),
			SweepRelations(n), SweepTypes(n), SweepRestrictions(n),
			SweepChain("userset", n), SweepChain("ttu", n), SweepChain("computed", n),
			SweepParents(n), SweepPublic(n), SweepEdgeConditions(n))
		if n <= 24 {
			out = append(out, SweepDepth("right", n), SweepDepth("alternating", n))
		}
	}
	return out
}

// SweepDepth: relation a is an operator tree nested n levels deep - to the right, to the left, or alternating sides - over the
// three operators in rotation, with the direct assignment first on the outermost level (DSL order) and computed leaves.
func SweepDepth(side string, n int) Tagged {
	leaf := func(i int) *ref.Rewrite { return ref.C(fmt.Sprintf("x%d", i%3)) }
	rw := ref.U(leaf(0), leaf(1))
	for i := 1; i < n; i++ {
		kind := []ref.Kind{ref.Inter, ref.Diff, ref.Union}[i%3]
		left := side == "left" || (side == "alternating" && i%2 == 0)
		var ch []*ref.Rewrite
		if left {
			ch = []*ref.Rewrite{rw, leaf(i + 1)}
		} else {
			ch = []*ref.Rewrite{leaf(i + 1), rw}
		}
		rw = &ref.Rewrite{Kind: kind, Ch: ch}
	}
	// outermost: the direct assignment first
	rw = ref.U(ref.T(), rw)
	doc := ref.TypeDef{Name: "doc", Rels: []ref.Relation{{Name: "a", Rw: rw, Restr: sweepUser()}}}
	for i := 0; i < 3; i++ {
		doc.Rels = append(doc.Rels, ref.Relation{Name: fmt.Sprintf("x%d", i), Rw: ref.T(), Restr: sweepUser()})
	}
	return Tagged{Tag: fmt.Sprintf("sweep: operators nested %d deep to the %s", n, side), M: &ref.Model{Schema: "1.1", Types: []ref.TypeDef{{Name: "user"}, doc}}}
}

// SweepEdgeConditions: one target under n different conditions and unconditioned (scrambled): one edge with n+1 conditions.
func SweepEdgeConditions(n int) Tagged {
	m := &ref.Model{Schema: "1.1"}
	var rs []ref.Restriction
	for i, x := range scramble(n) {
		name := fmt.Sprintf("k%03d", x)
		m.Conds = append(m.Conds, ref.Condition{Name: name, Params: []ref.Param{{Name: "x", Type: "int"}}, Expr: "x < 1"})
		rs = append(rs, ref.Restriction{Type: "user", Condition: name})
		if i == n/2 {
			rs = append(rs, ref.Restriction{Type: "user"})
		}
	}
	m.Types = []ref.TypeDef{{Name: "user"}, {Name: "doc", Rels: []ref.Relation{
		{Name: "a", Rw: ref.T(), Restr: rs},
		{Name: "b", Rw: ref.U(ref.T(), ref.C("a")), Restr: rs[:len(rs)/2]},
	}}}
	return Tagged{Tag: fmt.Sprintf("sweep: one target under %d conditions", n), M: m}
}

// SweepModules: n types, each in a module and file of its own, in scrambled order.
func SweepModules(n int) Tagged {
	m := &ref.Model{Schema: "1.2"}
	for _, x := range scramble(n) {
		m.Types = append(m.Types, ref.TypeDef{Name: fmt.Sprintf("t%03d", (x*3)%n), Module: fmt.Sprintf("m%03d", x), File: fmt.Sprintf("f%03d.fga", (x*5)%n)})
	}
	return Tagged{Tag: fmt.Sprintf("sweep: modular model with %d modules", n), M: m}
}
