package gen

import (
	"os"
	"path/filepath"
	"sort"
	"strings"

	"gopkg.in/yaml.v3"
)

// CorpusDoc is one DSL text of the repository's shared test-data corpus.
type CorpusDoc struct {
	Name string
	Text string
}

// Corpus collects every DSL text under <repo>/tests/data: *.dsl and *.fga files and the `dsl:` scalars of the YAML
// case files. The corpus is read from the tree under check; it is an input alphabet, not an oracle.
func Corpus(repo string) []CorpusDoc {
	var out []CorpusDoc
	root := filepath.Join(repo, "tests", "data")
	var files []string
	filepath.Walk(root, func(p string, info os.FileInfo, err error) error {
		if err == nil && !info.IsDir() {
			files = append(files, p)
		}
		return nil
	})
	sort.Strings(files)
	seen := map[string]bool{}
	add := func(name, text string) {
		if text == "" || seen[text] {
			return
		}
		seen[text] = true
		out = append(out, CorpusDoc{Name: name, Text: text})
	}
	for _, f := range files {
		rel, _ := filepath.Rel(root, f)
		switch {
		case strings.HasSuffix(f, ".dsl") || strings.HasSuffix(f, ".fga"):
			b, err := os.ReadFile(f)
			if err == nil {
				add(rel, string(b))
			}
		case strings.HasSuffix(f, ".yaml") || strings.HasSuffix(f, ".yml"):
			b, err := os.ReadFile(f)
			if err != nil {
				continue
			}
			var doc yaml.Node
			if yaml.Unmarshal(b, &doc) != nil {
				continue
			}
			n := 0
			var walk func(x *yaml.Node)
			walk = func(x *yaml.Node) {
				if x.Kind == yaml.MappingNode {
					for i := 0; i+1 < len(x.Content); i += 2 {
						if x.Content[i].Value == "dsl" && x.Content[i+1].Kind == yaml.ScalarNode {
							n++
							add(rel+"#"+itoa(n), x.Content[i+1].Value)
						}
					}
				}
				for _, c := range x.Content {
					walk(c)
				}
			}
			walk(&doc)
		}
	}
	return out
}

func itoa(i int) string {
	if i == 0 {
		return "0"
	}
	s := ""
	for i > 0 {
		s = string(rune('0'+i%10)) + s
		i /= 10
	}
	return s
}

// Pieces splits a text into name-like runs and single other characters (the
// granularity of the corpus mutations).
func Pieces(t string) []string {
	var out []string
	cur := ""
	isName := func(r rune) bool {
		return r == '_' || r == '-' || r == '.' || r == '/' || (r >= '0' && r <= '9') || (r >= 'a' && r <= 'z') || (r >= 'A' && r <= 'Z')
	}
	for _, r := range t {
		if isName(r) {
			cur += string(r)
			continue
		}
		if cur != "" {
			out = append(out, cur)
			cur = ""
		}
		out = append(out, string(r))
	}
	if cur != "" {
		out = append(out, cur)
	}
	return out
}

// CorpusMutations calls f with every single-piece deletion, every insertion of a lexeme at every piece boundary and every
// replacement of a piece by one of six lexemes.
func CorpusMutations(t string, lexemes []string, f func(idx int, s string)) {
	ps := Pieces(t)
	idx := 0
	join := func(a []string) string { return strings.Join(a, "") }
	for i := range ps {
		f(idx, join(ps[:i])+join(ps[i+1:]))
		idx++
	}
	for i := 0; i <= len(ps); i++ {
		pre, post := join(ps[:i]), join(ps[i:])
		for _, l := range lexemes {
			f(idx, pre+l+post)
			idx++
		}
	}
	// every piece REPLACED by a character no token can hold, by a non-ASCII one, by a keyword, by punctuation: a name that the
	// lexer drops altogether leaves the parser with a declaration without a name
	for i := range ps {
		if strings.TrimSpace(ps[i]) == "" {
			continue
		}
		for _, l := range []string{"$", "é", "@~", "define", ":", "type"} {
			f(idx, join(ps[:i])+l+join(ps[i+1:]))
			idx++
		}
	}
}
