// Package gen holds the finite alphabets and the deterministic,
// index-addressable enumerators of inputs.
package gen

import (
	"fmt"
	"strings"

	"verif/ref"
)

// Tagged is a generated model with a description of where it comes from.
type Tagged struct {
	Tag string
	M   *ref.Model
}

// ---- rewrite trees ----------------------------------------------------------

// TreeOpts bounds tree enumeration.
type TreeOpts struct {
	MaxLeaves int
	MaxDepth  int            // operator nesting depth (a leaf has depth 0)
	MinArity  int            // minimal number of children of union/intersection (DSL: 2, JSON: 1)
	MaxArity  int            // maximal number of children of union/intersection
	Leaves    []*ref.Rewrite // leaf alphabet
}

// Trees enumerates all rewrite trees within the bounds, smallest first.
func Trees(o TreeOpts) []*ref.Rewrite {
	// memo[n][d] = trees with exactly n leaves and depth <= d
	type key struct{ n, d int }
	memo := map[key][]*ref.Rewrite{}
	var build func(n, d int) []*ref.Rewrite
	build = func(n, d int) []*ref.Rewrite {
		if v, ok := memo[key{n, d}]; ok {
			return v
		}
		var out []*ref.Rewrite
		if n == 1 {
			for _, l := range o.Leaves {
				out = append(out, l)
			}
		}
		if d > 0 {
			// union / intersection with c children
			for c := o.MinArity; c <= o.MaxArity; c++ {
				if c > n {
					break
				}
				for _, comp := range compositions(n, c) {
					// cartesian product over children
					lists := make([][]*ref.Rewrite, c)
					ok := true
					for i, k := range comp {
						lists[i] = build(k, d-1)
						if len(lists[i]) == 0 {
							ok = false
						}
					}
					if !ok {
						continue
					}
					product(lists, func(ch []*ref.Rewrite) {
						out = append(out, &ref.Rewrite{Kind: ref.Union, Ch: append([]*ref.Rewrite{}, ch...)})
						out = append(out, &ref.Rewrite{Kind: ref.Inter, Ch: append([]*ref.Rewrite{}, ch...)})
					})
				}
			}
			// difference
			if n >= 2 {
				for _, comp := range compositions(n, 2) {
					lists := [][]*ref.Rewrite{build(comp[0], d-1), build(comp[1], d-1)}
					if len(lists[0]) == 0 || len(lists[1]) == 0 {
						continue
					}
					product(lists, func(ch []*ref.Rewrite) {
						out = append(out, &ref.Rewrite{Kind: ref.Diff, Ch: append([]*ref.Rewrite{}, ch...)})
					})
				}
			}
		}
		memo[key{n, d}] = out
		return out
	}
	var all []*ref.Rewrite
	for n := 1; n <= o.MaxLeaves; n++ {
		all = append(all, build(n, o.MaxDepth)...)
	}
	return all
}

func compositions(n, c int) [][]int {
	if c == 1 {
		return [][]int{{n}}
	}
	var out [][]int
	for first := 1; first <= n-(c-1); first++ {
		for _, rest := range compositions(n-first, c-1) {
			out = append(out, append([]int{first}, rest...))
		}
	}
	return out
}

func product(lists [][]*ref.Rewrite, f func([]*ref.Rewrite)) {
	idx := make([]int, len(lists))
	cur := make([]*ref.Rewrite, len(lists))
	for {
		for i := range lists {
			cur[i] = lists[i][idx[i]]
		}
		f(cur)
		k := len(lists) - 1
		for k >= 0 {
			idx[k]++
			if idx[k] < len(lists[k]) {
				break
			}
			idx[k] = 0
			k--
		}
		if k < 0 {
			return
		}
	}
}

// Conform tells whether a tree can be written in the DSL as it stands: all
// union/intersection have >= 2 children and the direct assignment occurs at
// most once and only on the first-operand spine.
func Conform(r *ref.Rewrite) bool {
	if r.CountThis() > 1 {
		return false
	}
	return conformAt(r, true)
}

func conformAt(r *ref.Rewrite, spine bool) bool {
	switch r.Kind {
	case ref.This:
		return spine
	case ref.Computed, ref.TTU:
		return true
	case ref.Union, ref.Inter:
		if len(r.Ch) < 2 {
			return false
		}
	case ref.Diff:
		if len(r.Ch) != 2 {
			return false
		}
	}
	for i, c := range r.Ch {
		if !conformAt(c, spine && i == 0) {
			return false
		}
	}
	return true
}

// ---- identifier alphabets ---------------------------------------------------

// ExtNames are admissible wherever the grammar says extended_identifier.
var ExtNames = []string{
	"viewer", "_x", "b1", "a-b", "a-", "a--b", "a.b/c-d", "x/y", "_1._2",
	"model", "schema", "type", "relation", "module", "extend",
	"orx", "fromage", "condition_a", "truex", "inx", "andy", "define1", "withal", "but", "not", "nullx", "relations1",
	"list", "map", "int", "string", "bool", "Z", "aB_9",
}

// IdentNames are admissible for the identifier rule (module names).
var IdentNames = []string{"core", "_m", "m-1", "model", "schema", "type", "relation", "module", "extend", "orx"}

// CondNames are admissible as condition names at definition and use sites.
var CondNames = []string{"cond", "_c", "c-1", "is_valid", "orx", "C9", "but"}

// CondDefOnlyNames lex as IDENTIFIER inside a condition header only (they are
// keywords in the default lexer mode), so they can be declared, not referenced.
var CondDefOnlyNames = []string{"or", "model", "in", "with", "true"}

// ParamNames are admissible parameter names.
var ParamNames = []string{"x", "_p", "p-1", "ip_addr", "in", "type", "or", "X9"}

// Exprs are condition expression texts the DSL can carry (no '}' and no '#',
// lexable, not containing the word "condition").
var Exprs = []string{
	"x < 100",
	"x == 1 && y != \"a b\"",
	"x in [1, 2, 3] || !(y)",
	"x.contains('z') ? true : false",
	"a >= 1.5e3 && b <= 0x1F && c > 1u",
	"x < 1 &&\n  y > 2",
	"m[\"k\"] == null",
	"x",
	"(x + 1) * 2 / 3 % 4 - 5 == 0",
	"b\"abc\" == r'raw' && s == \"\"\"tri\nple\"\"\"",
	"x { y",
	// blank lines inside the expression (two, and four: a clean-up of repeated line ends that runs once leaves some behind)
	"x < 100 &&\n\n\n  y != \"k\"",
	"x < 100 &&\n\n\n\n\n  y != \"k\"",
	"", // an empty body is grammatical
	// non-ASCII text inside string literals: two-, three- and four-byte characters (token offsets count runes, Go strings bytes)
	"y == \"São Paulo\" || y == \"Zürich\"",
	"y == \"日本語\" && x < 1",
	"y != \"a😀b\"",
}

// ---- model families ---------------------------------------------------------

func baseTypes(extra ...ref.TypeDef) []ref.TypeDef {
	return append([]ref.TypeDef{{Name: "user"}}, extra...)
}

var dUser = []ref.Restriction{{Type: "user"}}

// ShapeModels: one type whose relation "a" takes every DSL-conform rewrite
// shape over the leaves {[user], b, b from p}.
func ShapeModels(maxLeaves, maxDepth int) []Tagged {
	leaves := []*ref.Rewrite{ref.T(), ref.C("b"), ref.TT("b", "p")}
	var out []Tagged
	for _, t := range Trees(TreeOpts{MaxLeaves: maxLeaves, MaxDepth: maxDepth, MinArity: 2, MaxArity: 3, Leaves: leaves}) {
		if !Conform(t) {
			continue
		}
		rel := ref.Relation{Name: "a", Rw: t}
		if t.CountThis() > 0 {
			rel.Restr = dUser
		}
		m := &ref.Model{Schema: "1.1", Types: baseTypes(ref.TypeDef{Name: "doc", Rels: []ref.Relation{
			rel,
			{Name: "b", Rw: ref.T(), Restr: dUser},
			{Name: "p", Rw: ref.T(), Restr: []ref.Restriction{{Type: "doc"}}},
		}})}
		out = append(out, Tagged{"shape:" + t.String(), m})
	}
	return out
}

// NameModels: every identifier class in every grammatical position.
func NameModels() []Tagged {
	var out []Tagged
	mk := func(tag string, f func(n string) *ref.Model, names []string) {
		for _, n := range names {
			out = append(out, Tagged{tag + ":" + n, f(n)})
		}
	}
	mk("typename", func(n string) *ref.Model {
		return &ref.Model{Schema: "1.1", Types: []ref.TypeDef{{Name: n}, {Name: "doc", Rels: []ref.Relation{
			{Name: "r", Rw: ref.T(), Restr: []ref.Restriction{{Type: n}, {Type: n, Wildcard: true}}}}}}}
	}, ExtNames)
	mk("relname", func(n string) *ref.Model {
		return &ref.Model{Schema: "1.1", Types: baseTypes(ref.TypeDef{Name: "doc", Rels: []ref.Relation{
			{Name: n, Rw: ref.T(), Restr: dUser},
			{Name: "zz", Rw: ref.U(ref.C(n), ref.TT(n, n)), Restr: nil},
			{Name: "yy", Rw: ref.T(), Restr: []ref.Restriction{{Type: "doc", Relation: n}}},
		}})}
	}, ExtNames)
	mk("condname", func(n string) *ref.Model {
		return &ref.Model{Schema: "1.1", Types: baseTypes(ref.TypeDef{Name: "doc", Rels: []ref.Relation{
			{Name: "r", Rw: ref.T(), Restr: []ref.Restriction{{Type: "user", Condition: n}, {Type: "user", Wildcard: true, Condition: n}}}}}),
			Conds: []ref.Condition{{Name: n, Params: []ref.Param{{Name: "x", Type: "int"}}, Expr: "x < 100"}}}
	}, CondNames)
	mk("conddefonly", func(n string) *ref.Model {
		return &ref.Model{Schema: "1.1", Types: baseTypes(),
			Conds: []ref.Condition{{Name: n, Params: []ref.Param{{Name: "x", Type: "int"}}, Expr: "x < 100"}}}
	}, CondDefOnlyNames)
	mk("paramname", func(n string) *ref.Model {
		return &ref.Model{Schema: "1.1", Types: baseTypes(),
			Conds: []ref.Condition{{Name: "c", Params: []ref.Param{{Name: n, Type: "string"}, {Name: "zz", Type: "list", Generic: "int"}}, Expr: "zz == zz"}}}
	}, ParamNames)
	mk("modulename", func(n string) *ref.Model {
		return &ref.Model{Module: n, Types: []ref.TypeDef{{Name: "user"}, {Name: "doc", Rels: []ref.Relation{{Name: "r", Rw: ref.T(), Restr: dUser}}}}}
	}, IdentNames)
	return out
}

// twinNames coincide pairwise under some equivalence a sloppy comparator might use: case folding, natural number order, a
// common stem followed by a separator character, length before content, a leading underscore.
var twinNames = []string{"viewer", "Viewer", "r10", "VIEWER", "a-b", "vieweR", "a", "a.b", "r2", "a_b", "ab", "a/b", "a1", "Z", "r1", "b", "aa", "_x", "z", "B"}

func plainIdent(n string) bool { return !strings.ContainsAny(n, "./") }

// TwinModels: the twin names side by side as relations of one type, as types, as conditions, as parameters of one condition
// (declared in the scrambled order above), and as items of a modular model tied on (module, file).
func TwinModels() []Tagged {
	var out []Tagged
	doc := ref.TypeDef{Name: "doc"}
	for _, n := range twinNames {
		doc.Rels = append(doc.Rels, ref.Relation{Name: n, Rw: ref.T(), Restr: dUser})
	}
	out = append(out, Tagged{"twins:relations", &ref.Model{Schema: "1.1", Types: baseTypes(doc)}})
	mt := &ref.Model{Schema: "1.1", Types: baseTypes()}
	for _, n := range twinNames {
		mt.Types = append(mt.Types, ref.TypeDef{Name: n, Rels: []ref.Relation{{Name: "r", Rw: ref.T(), Restr: dUser}}})
	}
	out = append(out, Tagged{"twins:types", mt})
	mc := &ref.Model{Schema: "1.1", Types: baseTypes()}
	one := ref.Condition{Name: "c", Expr: "a == a"}
	for _, n := range twinNames {
		if plainIdent(n) {
			mc.Conds = append(mc.Conds, ref.Condition{Name: n, Params: []ref.Param{{Name: "x", Type: "int"}}, Expr: "x < 100"})
			one.Params = append(one.Params, ref.Param{Name: n, Type: "string"})
		}
	}
	out = append(out, Tagged{"twins:conditions", mc})
	out = append(out, Tagged{"twins:parameters", &ref.Model{Schema: "1.1", Types: baseTypes(), Conds: []ref.Condition{one}}})
	return out
}

// TwinModular: the twin names as items of a modular model - everything tied on (module, file), and spread over two origins
// whose names are twins themselves.
func TwinModular() []Tagged {
	var out []Tagged
	for _, spread := range []bool{false, true} {
		mm := &ref.Model{Schema: "1.2", Types: []ref.TypeDef{{Name: "user", Module: "m", File: "f.fga"}}}
		md := ref.TypeDef{Name: "doc", Module: "m", File: "f.fga"}
		for i, n := range twinNames {
			mod, file := "m", "f.fga"
			if spread && i%2 == 1 {
				mod, file = "M", "F.fga"
			}
			md.Rels = append(md.Rels, ref.Relation{Name: n, Rw: ref.T(), Restr: dUser, Module: mod, File: file})
			if n != "user" && n != "doc" {
				mm.Types = append(mm.Types, ref.TypeDef{Name: "t" + n, Module: mod, File: file})
			}
			if plainIdent(n) {
				mm.Conds = append(mm.Conds, ref.Condition{Name: n, Module: mod, File: file, Params: []ref.Param{{Name: "x", Type: "int"}}, Expr: "x < 100"})
			}
		}
		mm.Types = append(mm.Types, md)
		out = append(out, Tagged{fmt.Sprintf("twins:modular:spread=%v", spread), mm})
	}
	// origins whose names are prefixes of one another, continued by a character that sorts below '/' and below letters
	// ('-', '.'): a comparison of joined "module/file/name" strings orders them differently from a component-wise one
	origins := []struct{ mod, file string }{{"core", "f.fga"}, {"core-ext", "f.fga"}, {"core.x", "f.fga"}, {"core", "f.fga-2"}, {"core", "f"}, {"core/x", "f.fga"}, {"co", "re/f.fga"}}
	mm := &ref.Model{Schema: "1.2", Types: []ref.TypeDef{{Name: "user", Module: "core", File: "f.fga"}}}
	md := ref.TypeDef{Name: "doc", Module: "core", File: "f.fga"}
	names := []string{"m", "b", "x", "a", "q", "c", "z", "d", "k", "e", "p", "f", "n", "g"}
	for i, n := range names {
		o := origins[i%len(origins)]
		md.Rels = append(md.Rels, ref.Relation{Name: n, Rw: ref.T(), Restr: dUser, Module: o.mod, File: o.file})
		mm.Types = append(mm.Types, ref.TypeDef{Name: "t" + n, Module: o.mod, File: o.file})
		mm.Conds = append(mm.Conds, ref.Condition{Name: "c" + n, Module: o.mod, File: o.file, Params: []ref.Param{{Name: "x", Type: "int"}}, Expr: "x < 100"})
	}
	mm.Types = append(mm.Types, md)
	out = append(out, Tagged{"twins:modular:prefix-origins", mm})
	return out
}

// RestrAlphabet is the restriction alphabet (condition "c" is declared by the
// models that use it).
var RestrAlphabet = []ref.Restriction{
	{Type: "user"}, {Type: "user", Wildcard: true}, {Type: "group", Relation: "member"},
	{Type: "user", Condition: "c"}, {Type: "user", Wildcard: true, Condition: "c"}, {Type: "group", Relation: "member", Condition: "c"},
}

// RestrLists enumerates all restriction lists of length 1..max over the alphabet.
func RestrLists(max int) [][]ref.Restriction {
	var out [][]ref.Restriction
	var rec func(cur []ref.Restriction)
	rec = func(cur []ref.Restriction) {
		if len(cur) > 0 {
			out = append(out, append([]ref.Restriction{}, cur...))
		}
		if len(cur) == max {
			return
		}
		for _, r := range RestrAlphabet {
			rec(append(cur, r))
		}
	}
	rec(nil)
	return out
}

var condC = ref.Condition{Name: "c", Params: []ref.Param{{Name: "x", Type: "int"}}, Expr: "x < 100"}

// RestrModels: every restriction list up to a length, in a plain and in an
// operator context.
func RestrModels(max int) []Tagged {
	var out []Tagged
	group := ref.TypeDef{Name: "group", Rels: []ref.Relation{{Name: "member", Rw: ref.T(), Restr: dUser}}}
	for i, l := range RestrLists(max) {
		var rw *ref.Rewrite
		switch i % 3 {
		case 0:
			rw = ref.T()
		case 1:
			rw = ref.U(ref.T(), ref.C("b"))
		default:
			rw = ref.D(ref.I(ref.T(), ref.C("b")), ref.TT("b", "b"))
		}
		m := &ref.Model{Schema: "1.1", Types: baseTypes(group, ref.TypeDef{Name: "doc", Rels: []ref.Relation{
			{Name: "a", Rw: rw, Restr: l},
			{Name: "b", Rw: ref.T(), Restr: []ref.Restriction{{Type: "doc"}}},
		}}), Conds: []ref.Condition{condC}}
		out = append(out, Tagged{fmt.Sprintf("restr:%v", l), m})
	}
	return out
}

// AllParamTypes lists the 8 scalar and 16 container parameter types.
func AllParamTypes() []ref.Param {
	var out []ref.Param
	for _, s := range ref.ScalarParamTypes {
		out = append(out, ref.Param{Type: s})
	}
	for _, c := range ref.ContainerParamTypes {
		for _, s := range ref.ScalarParamTypes {
			out = append(out, ref.Param{Type: c, Generic: s})
		}
	}
	return out
}

// CondModels: parameter types, parameter counts and orders, expressions.
func CondModels() []Tagged {
	var out []Tagged
	for _, p := range AllParamTypes() {
		p.Name = "x"
		out = append(out, Tagged{"paramtype:" + p.Type + p.Generic, &ref.Model{Schema: "1.1", Types: baseTypes(),
			Conds: []ref.Condition{{Name: "c", Params: []ref.Param{p}, Expr: "x == x"}}}})
	}
	for i, e := range Exprs {
		out = append(out, Tagged{fmt.Sprintf("expr:%d", i), &ref.Model{Schema: "1.1", Types: baseTypes(),
			Conds: []ref.Condition{{Name: "c", Params: []ref.Param{{Name: "x", Type: "int"}, {Name: "y", Type: "string"}}, Expr: e}}}})
	}
	// parameter order not sorted, several conditions not sorted
	out = append(out, Tagged{"condorder", &ref.Model{Schema: "1.1", Types: baseTypes(ref.TypeDef{Name: "doc", Rels: []ref.Relation{
		{Name: "r", Rw: ref.T(), Restr: []ref.Restriction{{Type: "user", Condition: "zc"}, {Type: "user", Condition: "ac"}, {Type: "user"}}}}}),
		Conds: []ref.Condition{
			{Name: "zc", Params: []ref.Param{{Name: "z", Type: "int"}, {Name: "a", Type: "map", Generic: "string"}, {Name: "m", Type: "ipaddress"}}, Expr: "z > 0"},
			{Name: "ac", Params: []ref.Param{{Name: "b", Type: "timestamp"}, {Name: "a", Type: "duration"}}, Expr: "a == a"},
			{Name: "mc", Params: []ref.Param{{Name: "q", Type: "double"}}, Expr: "q < 1.0"},
		}}})
	return out
}

// MultiModels: several types and relations in declaration orders that are not
// sorted, types without relations between types with relations, schema versions.
func MultiModels() []Tagged {
	var out []Tagged
	rels := func(names ...string) []ref.Relation {
		var rs []ref.Relation
		for i, n := range names {
			if i == 0 {
				rs = append(rs, ref.Relation{Name: n, Rw: ref.T(), Restr: dUser})
			} else {
				rs = append(rs, ref.Relation{Name: n, Rw: ref.U(ref.C(names[0]), ref.TT(names[0], names[0]))})
			}
		}
		return rs
	}
	orders := [][]ref.TypeDef{
		{{Name: "zeta", Rels: rels("b", "a")}, {Name: "user"}, {Name: "alpha", Rels: rels("z", "m", "a")}},
		{{Name: "user"}, {Name: "b"}, {Name: "a"}},
		{{Name: "doc", Rels: rels("r")}, {Name: "user"}},
		{},
		{{Name: "user"}},
	}
	for i, o := range orders {
		for _, sv := range []string{"1.1", "1.2", "1.0", "10.25"} {
			out = append(out, Tagged{fmt.Sprintf("multi:%d:%s", i, sv), &ref.Model{Schema: sv, Types: o}})
		}
	}
	return out
}

// ModuleModels: module files (as single documents) with types, extensions and conditions.
func ModuleModels() []Tagged {
	var out []Tagged
	r1 := ref.Relation{Name: "viewer", Rw: ref.U(ref.T(), ref.C("editor")), Restr: []ref.Restriction{{Type: "user"}, {Type: "user", Condition: "c"}}}
	r2 := ref.Relation{Name: "editor", Rw: ref.T(), Restr: dUser}
	out = append(out,
		Tagged{"module:types", &ref.Model{Module: "core", Types: []ref.TypeDef{{Name: "user"}, {Name: "doc", Rels: []ref.Relation{r1, r2}}}, Conds: []ref.Condition{condC}}},
		Tagged{"module:extend", &ref.Model{Module: "ext", Types: []ref.TypeDef{{Name: "doc", Extend: true, Rels: []ref.Relation{r2}}, {Name: "own"}}}},
		Tagged{"module:extend-empty", &ref.Model{Module: "ext", Types: []ref.TypeDef{{Name: "doc", Extend: true}, {Name: "other", Extend: true, Rels: []ref.Relation{r2}}}}},
		Tagged{"module:only-cond", &ref.Model{Module: "m", Conds: []ref.Condition{condC}}},
		Tagged{"module:empty", &ref.Model{Module: "m"}},
	)
	return out
}

// DSLModels is the union of the families used by the DSL round-trip and
// layout checks. sizes: quick (false) or thorough (true).
func DSLModels(thorough bool) []Tagged {
	var out []Tagged
	if thorough {
		out = append(out, ShapeModels(4, 3)...)
		out = append(out, RestrModels(3)...)
	} else {
		out = append(out, ShapeModels(3, 2)...)
		out = append(out, RestrModels(2)...)
	}
	out = append(out, NameModels()...)
	out = append(out, TwinModels()...)
	out = append(out, CondModels()...)
	out = append(out, MultiModels()...)
	out = append(out, ModuleModels()...)
	return out
}
