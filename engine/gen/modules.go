package gen

import (
	"fmt"

	"verif/ref"
)

// FileSpec is one member of a module file set: either a module file given as
// AST (rendered by the reference renderer) or a malformed member given as text.
type FileSpec struct {
	Name string
	M    *ref.Model // nil for raw members
	Raw  string     // text of a malformed member
	// Malformed: "" (a proper module file), "not-a-module" (parses, but has a
	// model header) or "syntax" (does not parse).
	Malformed string
}

// FileSet is a list of files plus a description.
type FileSet struct {
	Tag   string
	Files []FileSpec
}

var mUser = []ref.Restriction{{Type: "user"}}

func rel(name string) ref.Relation { return ref.Relation{Name: name, Rw: ref.T(), Restr: mUser} }

// declMenu returns the declaration menu for file number f (relation names of
// fresh extensions depend on the file so that they do not clash by accident).
type decl struct {
	tag  string
	typ  *ref.TypeDef
	cond *ref.Condition
}

func declMenu(f int) []decl {
	fresh := fmt.Sprintf("e%d", f)
	cond := func(n string) *ref.Condition {
		return &ref.Condition{Name: n, Params: []ref.Param{{Name: "x", Type: "int"}}, Expr: "x < 100"}
	}
	return []decl{
		{"type-t1", &ref.TypeDef{Name: "t1"}, nil},
		{"type-t1-rels", &ref.TypeDef{Name: "t1", Rels: []ref.Relation{rel("r1")}}, nil},
		{"type-t2-rels", &ref.TypeDef{Name: "t2", Rels: []ref.Relation{rel("r1"), {Name: "r2", Rw: ref.C("r1")}}}, nil},
		{"extend-t1-fresh", &ref.TypeDef{Name: "t1", Extend: true, Rels: []ref.Relation{rel(fresh)}}, nil},
		{"extend-t1-r1", &ref.TypeDef{Name: "t1", Extend: true, Rels: []ref.Relation{rel("r1")}}, nil},
		{"extend-t2-x-r2", &ref.TypeDef{Name: "t2", Extend: true, Rels: []ref.Relation{rel("x"), rel("r2")}}, nil},
		{"extend-t3-missing", &ref.TypeDef{Name: "t3", Extend: true, Rels: []ref.Relation{rel("y")}}, nil},
		{"extend-t1-empty", &ref.TypeDef{Name: "t1", Extend: true}, nil},
		{"extend-t1-shared", &ref.TypeDef{Name: "t1", Extend: true, Rels: []ref.Relation{rel("s")}}, nil},
		// extension relations without a direct assignment (computed, TTU, operators only) next to an assignable one
		{"extend-t2-computed", &ref.TypeDef{Name: "t2", Extend: true, Rels: []ref.Relation{
			{Name: "k" + fresh, Rw: ref.C("r1")}, {Name: "u" + fresh, Rw: ref.U(ref.C("r1"), ref.TT("r1", "r1"))}, rel("v" + fresh)}}, nil},
		{"cond-c1", nil, cond("c1")},
		{"cond-c2", nil, cond("c2")},
		{"type-user", &ref.TypeDef{Name: "user"}, nil},
	}
}

var fileNames = []string{"a.fga", "b.fga", "c.fga", "d.fga"}
var moduleNames = []string{"ma", "mb", "ma", "md"} // the third file shares the first file's module

func buildFile(f int, ds []decl) FileSpec {
	m := &ref.Model{Module: moduleNames[f]}
	for _, d := range ds {
		if d.typ != nil {
			m.Types = append(m.Types, *d.typ)
		}
		if d.cond != nil {
			m.Conds = append(m.Conds, *d.cond)
		}
	}
	return FileSpec{Name: fileNames[f], M: m}
}

// declSeqs enumerates all sequences of at most max distinct menu entries.
// coreMenu is the conflict-relevant part of the menu, used where the full menu would be too large.
var coreMenu = map[string]bool{"type-t1-rels": true, "type-t2-rels": true, "extend-t1-fresh": true, "extend-t1-r1": true,
	"extend-t1-shared": true, "extend-t2-x-r2": true, "cond-c1": true}

var menuFilter func(tag string) bool

func declSeqs(f, max int) [][]decl {
	menu := declMenu(f)
	if menuFilter != nil {
		var m2 []decl
		for _, d := range menu {
			if menuFilter(d.tag) {
				m2 = append(m2, d)
			}
		}
		menu = m2
	}
	out := [][]decl{{}}
	var rec func(cur []decl, used []bool)
	rec = func(cur []decl, used []bool) {
		if len(cur) > 0 {
			out = append(out, append([]decl{}, cur...))
		}
		if len(cur) == max {
			return
		}
		for i, d := range menu {
			if !used[i] {
				used[i] = true
				rec(append(cur, d), used)
				used[i] = false
			}
		}
	}
	rec(nil, make([]bool, len(menu)))
	return out
}

func seqTag(ds []decl) string {
	s := ""
	for i, d := range ds {
		if i > 0 {
			s += "+"
		}
		s += d.tag
	}
	if s == "" {
		s = "empty"
	}
	return s
}

// MalformedFiles are members that are not module files.
func MalformedFiles() []FileSpec {
	return []FileSpec{
		{Name: "m1.fga", Raw: "model\n  schema 1.1\n\ntype t9\n", Malformed: "not-a-module"},
		{Name: "m2.fga", Raw: "model\n  schema 1.1\n\ntype t9\n  relations\n    define r: [t9]\n", Malformed: "not-a-module"},
		{Name: "m3.fga", Raw: "model\n  schema 1.1\n\ntype t9\n\ncondition c9(x: int) {\n  x < 1\n}\n", Malformed: "not-a-module"},
		{Name: "m4.fga", Raw: "module mm\n\ntype t9\n  relations\n    define r: [t9] or\n", Malformed: "syntax"},
		{Name: "m5.fga", Raw: "module\n\nextend type t1\n  relations\n    define q: [t1]\n", Malformed: "syntax"},
		{Name: "m6.fga", Raw: "", Malformed: "syntax"},
		{Name: "m7.fga", Raw: "module mm\n\nextend type t1\n  relations\n    define q: [t1]\n\nextend type t1\n  relations\n    define q2: [t1]\n", Malformed: "syntax"},
	}
}

// FileSets enumerates module file sets: nfiles files with at most maxDecl
// declarations each, plus every such set of nfiles-1 files completed by one
// malformed member.
func FileSets(nfiles, maxDecl int, withMalformed bool) []FileSet {
	var out []FileSet
	FileSetsEach(nfiles, maxDecl, withMalformed, nil, func(_ int, fs FileSet) { out = append(out, fs) })
	return out
}

// FileSetsEach enumerates the same sets without materialising them: set number i is built only if want is nil or
// want(i). It returns the number of sets.
func FileSetsEach(nfiles, maxDecl int, withMalformed bool, want func(i int) bool, f func(i int, fs FileSet)) int {
	var seqs [][][]decl
	for fi := 0; fi < nfiles; fi++ {
		seqs = append(seqs, declSeqs(fi, maxDecl))
	}
	n := 0
	idx := make([]int, nfiles)
	for {
		if want == nil || want(n) {
			fs := FileSet{}
			for fi := 0; fi < nfiles; fi++ {
				ds := seqs[fi][idx[fi]]
				fs.Files = append(fs.Files, buildFile(fi, ds))
				if fi > 0 {
					fs.Tag += " | "
				}
				fs.Tag += fileNames[fi] + ":" + seqTag(ds)
			}
			f(n, fs)
		}
		n++
		k := nfiles - 1
		for k >= 0 {
			idx[k]++
			if idx[k] < len(seqs[k]) {
				break
			}
			idx[k] = 0
			k--
		}
		if k < 0 {
			break
		}
	}
	if withMalformed {
		for _, mf := range MalformedFiles() {
			for _, ds := range declSeqs(0, maxDecl) {
				if want == nil || want(n) {
					f(n, FileSet{Tag: "a.fga:" + seqTag(ds) + " | " + mf.Name, Files: []FileSpec{buildFile(0, ds), mf}})
				}
				n++
			}
			if want == nil || want(n) {
				f(n, FileSet{Tag: mf.Name + " alone", Files: []FileSpec{mf}})
			}
			n++
		}
	}
	return n
}

// FileSetsCoreEach is FileSetsEach over the conflict-relevant sub-menu (7 declarations).
func FileSetsCoreEach(nfiles, maxDecl int, want func(i int) bool, f func(i int, fs FileSet)) int {
	menuFilter = func(tag string) bool { return coreMenu[tag] }
	defer func() { menuFilter = nil }()
	return FileSetsEach(nfiles, maxDecl, false, want, f)
}

// ManyExtendersEach: four files - a.fga defines t1 (without relations, with r0, or defines and extends it itself) and b, c, d
// each extend t1 from a menu of five (relation x; y; x and y; an empty extension; nothing but a type of their own), so that
// up to three extensions meet on one type, fresh and clashing, first-applied and later ones.
func ManyExtendersEach(want func(i int) bool, f func(i int, fs FileSet)) int {
	bases := []struct {
		tag string
		ts  []ref.TypeDef
	}{
		{"t1", []ref.TypeDef{{Name: "user"}, {Name: "t1"}}},
		{"t1-r0", []ref.TypeDef{{Name: "user"}, {Name: "t1", Rels: []ref.Relation{rel("r0")}}}},
		{"t1+extend-x", []ref.TypeDef{{Name: "user"}, {Name: "t1"}, {Name: "t1", Extend: true, Rels: []ref.Relation{rel("x")}}}},
	}
	ext := func(fi int) []struct {
		tag string
		ts  []ref.TypeDef
	} {
		own := fmt.Sprintf("own%d", fi)
		return []struct {
			tag string
			ts  []ref.TypeDef
		}{
			{"x", []ref.TypeDef{{Name: "t1", Extend: true, Rels: []ref.Relation{rel("x")}}}},
			{"y", []ref.TypeDef{{Name: "t1", Extend: true, Rels: []ref.Relation{rel("y")}}}},
			{"x+y", []ref.TypeDef{{Name: "t1", Extend: true, Rels: []ref.Relation{rel("x"), rel("y")}}}},
			{"empty", []ref.TypeDef{{Name: "t1", Extend: true}}},
			{"own-type", []ref.TypeDef{{Name: own, Rels: []ref.Relation{rel("r")}}}},
		}
	}
	n := 0
	for _, b := range bases {
		for _, e1 := range ext(1) {
			for _, e2 := range ext(2) {
				for _, e3 := range ext(3) {
					if want == nil || want(n) {
						fs := FileSet{Tag: fmt.Sprintf("many-extenders: a.fga:%s | b.fga:%s | c.fga:%s | d.fga:%s", b.tag, e1.tag, e2.tag, e3.tag)}
						fs.Files = append(fs.Files, FileSpec{Name: fileNames[0], M: &ref.Model{Module: moduleNames[0], Types: b.ts}})
						for k, e := range []struct {
							tag string
							ts  []ref.TypeDef
						}{e1, e2, e3} {
							fs.Files = append(fs.Files, FileSpec{Name: fileNames[k+1], M: &ref.Model{Module: moduleNames[k+1], Types: e.ts}})
						}
						f(n, fs)
					}
					n++
				}
			}
		}
	}
	return n
}

// TwoTargetsEach: one file extends TWO different types (t1, which has r1, and t4, which has q) in either order, adding to each a
// relation that the other type already has, a fresh one, or one the type itself has; the base types stand in one file or in
// two, and a further file may extend one of them as well.
func TwoTargetsEach(want func(i int) bool, f func(i int, fs FileSet)) int {
	t1 := ref.TypeDef{Name: "t1", Rels: []ref.Relation{rel("r1")}}
	t4 := ref.TypeDef{Name: "t4", Rels: []ref.Relation{rel("q")}}
	user := ref.TypeDef{Name: "user"}
	n := 0
	for _, split := range []bool{false, true} {
		for _, t1First := range []bool{true, false} {
			for _, x := range []string{"q", "e", "r1"} {
				for _, y := range []string{"r1", "e", "q"} {
					for _, third := range []string{"none", "extend-t4-r1", "extend-t1-q", "extend-t1-e", "extend-t4-e"} {
						if want == nil || want(n) {
							fs := FileSet{Tag: fmt.Sprintf("two-targets: base in two files=%v | b.fga: extend t1 with %s, extend t4 with %s (t1 first=%v) | d.fga: %s", split, x, y, t1First, third)}
							if split {
								fs.Files = append(fs.Files, FileSpec{Name: fileNames[0], M: &ref.Model{Module: moduleNames[0], Types: []ref.TypeDef{user, t1}}},
									FileSpec{Name: fileNames[2], M: &ref.Model{Module: moduleNames[2], Types: []ref.TypeDef{t4}}})
							} else {
								fs.Files = append(fs.Files, FileSpec{Name: fileNames[0], M: &ref.Model{Module: moduleNames[0], Types: []ref.TypeDef{user, t1, t4}}})
							}
							e1 := ref.TypeDef{Name: "t1", Extend: true, Rels: []ref.Relation{rel(x)}}
							e4 := ref.TypeDef{Name: "t4", Extend: true, Rels: []ref.Relation{rel(y)}}
							exts := []ref.TypeDef{e1, e4}
							if !t1First {
								exts = []ref.TypeDef{e4, e1}
							}
							fs.Files = append(fs.Files, FileSpec{Name: fileNames[1], M: &ref.Model{Module: moduleNames[1], Types: exts}})
							switch third {
							case "extend-t4-r1":
								fs.Files = append(fs.Files, FileSpec{Name: fileNames[3], M: &ref.Model{Module: moduleNames[3], Types: []ref.TypeDef{{Name: "t4", Extend: true, Rels: []ref.Relation{rel("r1")}}}}})
							case "extend-t1-q":
								fs.Files = append(fs.Files, FileSpec{Name: fileNames[3], M: &ref.Model{Module: moduleNames[3], Types: []ref.TypeDef{{Name: "t1", Extend: true, Rels: []ref.Relation{rel("q")}}}}})
							case "extend-t1-e":
								// the name the two-target file may add to its OTHER type
								fs.Files = append(fs.Files, FileSpec{Name: fileNames[3], M: &ref.Model{Module: moduleNames[3], Types: []ref.TypeDef{{Name: "t1", Extend: true, Rels: []ref.Relation{rel("e")}}}}})
							case "extend-t4-e":
								fs.Files = append(fs.Files, FileSpec{Name: fileNames[3], M: &ref.Model{Module: moduleNames[3], Types: []ref.TypeDef{{Name: "t4", Extend: true, Rels: []ref.Relation{rel("e")}}}}})
							}
							f(n, fs)
						}
						n++
					}
				}
			}
		}
	}
	return n
}

// SweepFileSetsEach: module file sets with ONE dimension scaled to n - files extending one type (a conflict between a middle
// and a late one, or none), relations added by one extension (a later file clashing with the first, the middle, the last,
// or none), extend blocks in one file (the middle one clashing), types in one file (the middle one defined again elsewhere),
// conditions in one file (the middle one defined again elsewhere). Names and files in scrambled order.
func SweepFileSetsEach(sizes []int, want func(i int) bool, f func(i int, fs FileSet)) int {
	k := 0
	emit := func(tag string, files []FileSpec) {
		if want == nil || want(k) {
			f(k, FileSet{Tag: tag, Files: files})
		}
		k++
	}
	mod := func(name, module string, ts []ref.TypeDef, cs []ref.Condition) FileSpec {
		return FileSpec{Name: name, M: &ref.Model{Module: module, Types: ts, Conds: cs}}
	}
	user := ref.TypeDef{Name: "user"}
	for _, n := range sizes {
		// (a) n files extending t1
		for _, conflict := range []string{"none", "middle-and-last", "second-and-middle"} {
			files := []FileSpec{mod("a.fga", "ma", []ref.TypeDef{user, {Name: "t1", Rels: []ref.Relation{rel("r0")}}}, nil)}
			order := scramble(n)
			for i, x := range order {
				name := fmt.Sprintf("e%03d", x)
				if conflict == "middle-and-last" && i == n-1 {
					name = fmt.Sprintf("e%03d", order[n/2])
				}
				if conflict == "second-and-middle" && i == n/2 {
					name = fmt.Sprintf("e%03d", order[1])
				}
				files = append(files, mod(fmt.Sprintf("f%03d.fga", x), fmt.Sprintf("m%03d", x), []ref.TypeDef{{Name: "t1", Extend: true, Rels: []ref.Relation{rel(name)}}}, nil))
			}
			emit(fmt.Sprintf("sweep: %d files extending one type, conflict %s", n, conflict), files)
		}
		// (b) one extension with n relations, a later file clashing
		for _, clash := range []string{"none", "first", "middle", "last"} {
			var rels []ref.Relation
			for _, x := range scramble(n) {
				rels = append(rels, rel(fmt.Sprintf("e%03d", x)))
			}
			files := []FileSpec{
				mod("a.fga", "ma", []ref.TypeDef{user, {Name: "t1", Rels: []ref.Relation{rel("r0")}}}, nil),
				mod("b.fga", "mb", []ref.TypeDef{{Name: "t1", Extend: true, Rels: rels}}, nil),
			}
			late := map[string]string{"none": "zz_fresh", "first": "e000", "middle": fmt.Sprintf("e%03d", n/2), "last": fmt.Sprintf("e%03d", n-1)}[clash]
			files = append(files, mod("c.fga", "mc", []ref.TypeDef{{Name: "t1", Extend: true, Rels: []ref.Relation{rel("aa_first"), rel(late)}}}, nil))
			emit(fmt.Sprintf("sweep: one extension with %d relations, a later file clashing with %s", n, clash), files)
		}
		// (c) n extend blocks in one file, the middle one clashing with its base
		{
			var bases, exts []ref.TypeDef
			bases = append(bases, user)
			for i, x := range scramble(n) {
				t := fmt.Sprintf("t%03d", x)
				bases = append(bases, ref.TypeDef{Name: t, Rels: []ref.Relation{rel("q")}})
				add := "x"
				if i == n/2 {
					add = "q"
				}
				exts = append(exts, ref.TypeDef{Name: t, Extend: true, Rels: []ref.Relation{rel(add)}})
			}
			emit(fmt.Sprintf("sweep: %d extend blocks in one file, the middle one clashing", n), []FileSpec{mod("a.fga", "ma", bases, nil), mod("b.fga", "mb", exts, nil)})
		}
		// (d) n types, the middle one defined again; (e) n conditions, the middle one defined again
		{
			var ts []ref.TypeDef
			var cs []ref.Condition
			ts = append(ts, user)
			for _, x := range scramble(n) {
				ts = append(ts, ref.TypeDef{Name: fmt.Sprintf("t%03d", x), Rels: []ref.Relation{rel("q")}})
				cs = append(cs, ref.Condition{Name: fmt.Sprintf("c%03d", x), Params: []ref.Param{{Name: "x", Type: "int"}}, Expr: "x < 1"})
			}
			emit(fmt.Sprintf("sweep: %d types in one file, the middle one defined again", n), []FileSpec{mod("a.fga", "ma", ts, nil),
				mod("b.fga", "mb", []ref.TypeDef{{Name: "other"}, {Name: fmt.Sprintf("t%03d", n/2)}}, nil)})
			emit(fmt.Sprintf("sweep: %d conditions in one file, the middle one defined again", n), []FileSpec{mod("a.fga", "ma", []ref.TypeDef{user}, cs),
				mod("b.fga", "mb", []ref.TypeDef{{Name: "other"}}, []ref.Condition{{Name: fmt.Sprintf("c%03d", n/2), Params: []ref.Param{{Name: "y", Type: "string"}}, Expr: "y == y"}})})
		}
	}
	return k
}
