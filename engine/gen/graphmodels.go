package gen

import (
	"fmt"

	"verif/ref"
)

// Graph-model alphabet (C04-C06, C10, C11): terminal types user and group,
// object type doc with relations a, b (and c) and tupleset p, object type
// folder with fixed relations. Models are built as AST and handed to the graph
// builders as protobuf; they need not be DSL-expressible.

// RelSpec is a rewrite plus the restriction list its direct assignments use.
type RelSpec struct {
	Rw    *ref.Rewrite
	Restr []ref.Restriction
	Tag   string
}

func restrLists(self, other string) map[string][]ref.Restriction {
	return map[string][]ref.Restriction{
		"[user]":             {{Type: "user"}},
		"[user:*]":           {{Type: "user", Wildcard: true}},
		"[group]":            {{Type: "group"}},
		"[user,group]":       {{Type: "user"}, {Type: "group"}},
		"[user with k,user]": {{Type: "user", Condition: "k"}, {Type: "user"}},
		"[doc#other]":        {{Type: "doc", Relation: other}},
		"[doc#self]":         {{Type: "doc", Relation: self}},
		"[folder#a]":         {{Type: "folder", Relation: "a"}},
		"[user,doc#other]":   {{Type: "user"}, {Type: "doc", Relation: other}},
		"[user,doc#self]":    {{Type: "user"}, {Type: "doc", Relation: self}},
		"[group:*,user]":     {{Type: "group", Wildcard: true}, {Type: "user"}},
	}
}

var listOrderFull = []string{"[user]", "[user:*]", "[group]", "[user,group]", "[user with k,user]", "[doc#other]", "[doc#self]", "[folder#a]", "[user,doc#other]", "[user,doc#self]", "[group:*,user]"}
var listOrderQuick = []string{"[user]", "[user,group]", "[user,doc#self]"}

// RelSpecs enumerates the rewrites of relation self (whose sibling is other):
// every leaf, and every union/intersection/exclusion of two leaves (thorough:
// also three-operand and nested forms over a reduced leaf set).
func RelSpecs(self, other string, lists []string, nested bool) []RelSpec {
	return relSpecs(self, other, lists, nested, true)
}

func relSpecs(self, other string, lists []string, nested bool, selfComputed bool) []RelSpec {
	rl := restrLists(self, other)
	var out []RelSpec
	type leaf struct {
		rw  *ref.Rewrite
		tag string
	}
	nonThis := []leaf{
		{ref.C(other), other}, {ref.C(self), self},
		{ref.TT(other, "p"), other + " from p"}, {ref.TT(self, "p"), self + " from p"},
	}
	if !selfComputed {
		// quick alphabet: a direct self reference (define a: a) is kept as a leaf only
		nonThis = []leaf{{ref.C(other), other}, {ref.TT(other, "p"), other + " from p"}, {ref.TT(self, "p"), self + " from p"}}
	}
	for _, l := range lists {
		out = append(out, RelSpec{ref.T(), rl[l], l})
	}
	for _, x := range nonThis {
		out = append(out, RelSpec{x.rw, nil, x.tag})
	}
	if !selfComputed {
		out = append(out, RelSpec{ref.C(self), nil, self}, RelSpec{ref.U(ref.T(), ref.C(self)), rl["[user]"], "THIS or " + self + " with [user]"})
	}
	ops := []struct {
		k   ref.Kind
		tag string
	}{{ref.Union, "or"}, {ref.Inter, "and"}, {ref.Diff, "but not"}}
	leaves := append([]leaf{{ref.T(), "THIS"}}, nonThis...)
	for _, op := range ops {
		for _, x := range leaves {
			for _, y := range leaves {
				hasThis := x.rw.Kind == ref.This || y.rw.Kind == ref.This
				ls := []string{""}
				if hasThis {
					ls = lists
				}
				for _, l := range ls {
					rw := &ref.Rewrite{Kind: op.k, Ch: []*ref.Rewrite{x.rw, y.rw}}
					tag := fmt.Sprintf("%s %s %s", x.tag, op.tag, y.tag)
					if hasThis {
						tag += " with " + l
					}
					out = append(out, RelSpec{rw, rl[l], tag})
				}
			}
		}
	}
	if nested {
		small := []leaf{{ref.T(), "THIS"}, {ref.C(other), other}, {ref.TT(self, "p"), self + " from p"}, {ref.TT(other, "p"), other + " from p"}}
		for _, op1 := range ops {
			for _, op2 := range ops {
				for _, x := range small {
					for _, y := range small {
						for _, z := range small {
							for _, left := range []bool{true, false} {
								if op1.k == op2.k && op1.k != ref.Diff && !left {
									continue
								}
								var rw *ref.Rewrite
								var tag string
								if left {
									rw = &ref.Rewrite{Kind: op2.k, Ch: []*ref.Rewrite{{Kind: op1.k, Ch: []*ref.Rewrite{x.rw, y.rw}}, z.rw}}
									tag = fmt.Sprintf("(%s %s %s) %s %s", x.tag, op1.tag, y.tag, op2.tag, z.tag)
								} else {
									rw = &ref.Rewrite{Kind: op1.k, Ch: []*ref.Rewrite{x.rw, {Kind: op2.k, Ch: []*ref.Rewrite{y.rw, z.rw}}}}
									tag = fmt.Sprintf("%s %s (%s %s %s)", x.tag, op1.tag, y.tag, op2.tag, z.tag)
								}
								l := "[user,group]"
								out = append(out, RelSpec{rw, rl[l], tag + " with " + l})
							}
						}
						if op1.k != ref.Diff && op1.k == op2.k {
							// three operands under one operator
							rw := &ref.Rewrite{Kind: op1.k, Ch: []*ref.Rewrite{x.rw, y.rw, small[2].rw}}
							out = append(out, RelSpec{rw, rl["[user,group]"], fmt.Sprintf("%s %s %s %s %s", x.tag, op1.tag, y.tag, op1.tag, small[2].tag)})
						}
					}
				}
			}
		}
	}
	return out
}

// TuplesetVariants are the restriction lists of doc#p.
var TuplesetVariants = map[string][]ref.Restriction{
	"p:[doc]":        {{Type: "doc"}},
	"p:[folder]":     {{Type: "folder"}},
	"p:[doc,folder]": {{Type: "doc"}, {Type: "folder"}},
}
var tuplesetOrder = []string{"p:[doc]", "p:[folder]", "p:[doc,folder]"}

// GraphModel assembles a model from the specs of doc's relations.
func GraphModel(specs map[string]RelSpec, pvar string) *ref.Model {
	doc := ref.TypeDef{Name: "doc"}
	for _, n := range []string{"a", "b", "c"} {
		if s, ok := specs[n]; ok {
			doc.Rels = append(doc.Rels, ref.Relation{Name: n, Rw: s.Rw, Restr: s.Restr})
		}
	}
	doc.Rels = append(doc.Rels, ref.Relation{Name: "p", Rw: ref.T(), Restr: TuplesetVariants[pvar]})
	folder := ref.TypeDef{Name: "folder", Rels: []ref.Relation{
		{Name: "a", Rw: ref.T(), Restr: []ref.Restriction{{Type: "user"}}},
		{Name: "b", Rw: ref.T(), Restr: []ref.Restriction{{Type: "group"}, {Type: "user", Wildcard: true}}},
	}}
	return &ref.Model{Schema: "1.1", Types: []ref.TypeDef{{Name: "user"}, {Name: "group"}, doc, folder},
		Conds: []ref.Condition{{Name: "k", Params: []ref.Param{{Name: "x", Type: "int"}}, Expr: "x < 1"}}}
}

// GraphModels2 enumerates all models with two doc relations a and b. index
// addressing: i -> (spec of a, spec of b, tupleset variant).
type GraphSpace struct {
	A, B, C []RelSpec
	P       []string
}

// NewGraphSpace builds the enumeration space. three=true adds relation c.
func NewGraphSpace(thorough bool) *GraphSpace {
	lists := listOrderQuick
	if thorough {
		lists = listOrderFull
	}
	return &GraphSpace{A: relSpecs("a", "b", lists, false, thorough), B: relSpecs("b", "a", lists, false, thorough), P: tuplesetOrder}
}

// Size is the number of two-relation models.
func (s *GraphSpace) Size() int { return len(s.A) * len(s.B) * len(s.P) }

// At returns model number i.
func (s *GraphSpace) At(i int) Tagged {
	p := s.P[i%len(s.P)]
	i /= len(s.P)
	b := s.B[i%len(s.B)]
	a := s.A[i/len(s.B)]
	return Tagged{Tag: fmt.Sprintf("a: %s | b: %s | %s", a.Tag, b.Tag, p), M: GraphModel(map[string]RelSpec{"a": a, "b": b}, p)}
}

// ThreeRelModels enumerates models with relations a, b, c over a reduced
// rewrite set that is rich in cycles (nested and three-operand forms for a).
func ThreeRelModels(thorough bool) []Tagged {
	var out []Tagged
	mk := func(self string, others []string) []RelSpec {
		rl := restrLists(self, others[0])
		var s []RelSpec
		s = append(s, RelSpec{ref.T(), rl["[user]"], "[user]"}, RelSpec{ref.T(), rl["[user,doc#self]"], "[user,doc#self]"})
		for _, o := range others {
			s = append(s, RelSpec{ref.C(o), nil, o})
			s = append(s, RelSpec{ref.TT(o, "p"), nil, o + " from p"})
			s = append(s, RelSpec{ref.U(ref.T(), ref.C(o)), rl["[user]"], "[user] or " + o})
			s = append(s, RelSpec{ref.U(ref.TT(o, "p"), ref.C(self)), nil, o + " from p or " + self})
			s = append(s, RelSpec{ref.U(ref.C(o), ref.TT(self, "p")), nil, o + " or " + self + " from p"})
			if thorough {
				s = append(s, RelSpec{ref.I(ref.T(), ref.C(o)), rl["[user,group]"], "[user,group] and " + o})
				s = append(s, RelSpec{ref.D(ref.T(), ref.TT(o, "p")), rl["[user]"], "[user] but not " + o + " from p"})
				s = append(s, RelSpec{ref.U(ref.T(), ref.TT(o, "p"), ref.TT(self, "p")), rl["[group]"], "[group] or " + o + " from p or " + self + " from p"})
			}
		}
		return s
	}
	as := mk("a", []string{"b", "c"})
	bs := mk("b", []string{"c", "a"})
	cs := mk("c", []string{"a", "b"})
	for _, a := range as {
		for _, b := range bs {
			for _, c := range cs {
				out = append(out, Tagged{Tag: fmt.Sprintf("a: %s | b: %s | c: %s | p:[doc]", a.Tag, b.Tag, c.Tag),
					M: GraphModel(map[string]RelSpec{"a": a, "b": b, "c": c}, "p:[doc]")})
			}
		}
	}
	return out
}

// NestedModels: relation a takes nested / three-operand rewrites, b is fixed simple.
func NestedModels() []Tagged {
	var out []Tagged
	all := RelSpecs("a", "b", []string{"[user,group]"}, true)
	base := len(RelSpecs("a", "b", []string{"[user,group]"}, false))
	for _, a := range all[base:] {
		for _, b := range []RelSpec{{ref.T(), []ref.Restriction{{Type: "user"}}, "[user]"}, {ref.U(ref.T(), ref.TT("b", "p")), []ref.Restriction{{Type: "group"}}, "[group] or b from p"}} {
			for _, p := range []string{"p:[doc]", "p:[doc,folder]"} {
				out = append(out, Tagged{Tag: fmt.Sprintf("a: %s | b: %s | %s", a.Tag, b.Tag, p), M: GraphModel(map[string]RelSpec{"a": a, "b": b}, p)})
			}
		}
	}
	return out
}

// TTUDefectModels: tuple-to-userset over a tupleset that is undefined, has no
// type restrictions, or whose parent type lacks the computed relation - at the
// root and under every operator, in first and second operand position.
func TTUDefectModels() []Tagged {
	var out []Tagged
	u := []ref.Restriction{{Type: "user"}}
	bad := []struct {
		tag string
		rw  *ref.Rewrite
		q   *ref.Relation
	}{
		{"tupleset undefined", ref.TT("b", "q"), nil},
		{"tupleset without restrictions (computed)", ref.TT("b", "q"), &ref.Relation{Name: "q", Rw: ref.C("b")}},
		{"tupleset restricted to a type without the relation", ref.TT("b", "q"), &ref.Relation{Name: "q", Rw: ref.T(), Restr: []ref.Restriction{{Type: "user"}}}},
		{"one of two parent types lacks the relation", ref.TT("b", "q"), &ref.Relation{Name: "q", Rw: ref.T(), Restr: []ref.Restriction{{Type: "doc"}, {Type: "folder2"}}}},
		{"tupleset with empty restriction list", ref.TT("b", "q"), &ref.Relation{Name: "q", Rw: ref.T(), Restr: []ref.Restriction{}}},
	}
	for _, b := range bad {
		wraps := []struct {
			tag string
			rw  *ref.Rewrite
		}{
			{"alone", b.rw},
			{"or first", ref.U(b.rw, ref.T())}, {"or second", ref.U(ref.T(), b.rw)},
			{"and first", ref.I(b.rw, ref.T())}, {"and second", ref.I(ref.T(), b.rw)},
			{"but not first", ref.D(b.rw, ref.T())}, {"but not second", ref.D(ref.T(), b.rw)},
			{"nested", ref.U(ref.T(), ref.I(ref.C("b"), b.rw))},
		}
		for _, w := range wraps {
			doc := ref.TypeDef{Name: "doc", Rels: []ref.Relation{{Name: "a", Rw: w.rw, Restr: u}, {Name: "b", Rw: ref.T(), Restr: u}}}
			if b.q != nil {
				doc.Rels = append(doc.Rels, *b.q)
			}
			m := &ref.Model{Schema: "1.1", Types: []ref.TypeDef{{Name: "user"}, doc, {Name: "folder2", Rels: []ref.Relation{{Name: "z", Rw: ref.T(), Restr: u}}}}}
			out = append(out, Tagged{Tag: "ttu-defect: " + b.tag + " / " + w.tag, M: m})
		}
	}
	return out
}

// InterlockModels: several interlocking tuple cycles - every relation of doc
// (two or three) has a direct assignment whose list mixes a terminal type, its
// own userset and the other relations' usersets in every order, optionally
// with a TTU on itself or a neighbour.
func InterlockModels() []Tagged {
	var out []Tagged
	term := map[string]string{"a": "group", "b": "user", "c": "user"}
	lists := func(self string, others []string) [][]ref.Restriction {
		t := ref.Restriction{Type: term[self]}
		s := ref.Restriction{Type: "doc", Relation: self}
		var ls [][]ref.Restriction
		o := ref.Restriction{Type: "doc", Relation: others[0]}
		ls = append(ls, []ref.Restriction{t, s, o}, []ref.Restriction{t, o, s}, []ref.Restriction{s, o, t}, []ref.Restriction{o, t}, []ref.Restriction{t, s})
		if len(others) > 1 {
			o2 := ref.Restriction{Type: "doc", Relation: others[1]}
			ls = append(ls, []ref.Restriction{t, o, o2, s}, []ref.Restriction{o2, s, t})
		}
		return ls
	}
	rws := func(self string, others []string) []*ref.Rewrite {
		return []*ref.Rewrite{ref.T(), ref.U(ref.T(), ref.TT(self, "p")), ref.U(ref.TT(others[0], "p"), ref.T())}
	}
	tag := func(n string, rw *ref.Rewrite, l []ref.Restriction) string {
		return fmt.Sprintf("%s: %s with %v", n, rw, l)
	}
	// two relations
	for _, la := range lists("a", []string{"b"}) {
		for _, lb := range lists("b", []string{"a"}) {
			for ia, ra := range rws("a", []string{"b"}) {
				for ib, rb := range rws("b", []string{"a"}) {
					if ia > 0 && ib > 0 && (len(la)+len(lb))%2 == 0 {
						continue
					}
					m := GraphModel(map[string]RelSpec{"a": {ra, la, ""}, "b": {rb, lb, ""}}, "p:[doc]")
					out = append(out, Tagged{Tag: "interlock: " + tag("a", ra, la) + " | " + tag("b", rb, lb), M: m})
				}
			}
		}
	}
	// three relations, direct assignments only
	for i, la := range lists("a", []string{"b", "c"}) {
		for j, lb := range lists("b", []string{"c", "a"}) {
			for k, lc := range lists("c", []string{"a", "b"}) {
				if (i+j+k)%3 != 0 {
					continue
				}
				m := GraphModel(map[string]RelSpec{"a": {ref.T(), la, ""}, "b": {ref.T(), lb, ""}, "c": {ref.T(), lc, ""}}, "p:[doc]")
				out = append(out, Tagged{Tag: "interlock3: " + tag("a", ref.T(), la) + " | " + tag("b", ref.T(), lb) + " | " + tag("c", ref.T(), lc), M: m})
			}
		}
	}
	return out
}

// SameTargetModels: one operator reaches the same relation node by a rewrite (or TTU) edge and by a direct
// userset edge, in both operand orders (the second order is not DSL-expressible), with and without conditions.
func SameTargetModels() []Tagged {
	var out []Tagged
	u := ref.Restriction{Type: "user"}
	lists := map[string][]ref.Restriction{
		"[user,doc#b]":         {u, {Type: "doc", Relation: "b"}},
		"[doc#b]":              {{Type: "doc", Relation: "b"}},
		"[doc#b with k,user]":  {{Type: "doc", Relation: "b", Condition: "k"}, u},
		"[doc#b,doc#b with k]": {{Type: "doc", Relation: "b"}, {Type: "doc", Relation: "b", Condition: "k"}},
	}
	order := []string{"[user,doc#b]", "[doc#b]", "[doc#b with k,user]", "[doc#b,doc#b with k]"}
	others := []struct {
		tag string
		rw  *ref.Rewrite
	}{{"b", ref.C("b")}, {"b from p", ref.TT("b", "p")}}
	for _, ln := range order {
		for _, o := range others {
			for _, k := range []ref.Kind{ref.Union, ref.Inter, ref.Diff} {
				for _, thisFirst := range []bool{true, false} {
					ch := []*ref.Rewrite{ref.T(), o.rw}
					tag := "THIS " + map[ref.Kind]string{ref.Union: "or", ref.Inter: "and", ref.Diff: "but not"}[k] + " " + o.tag
					if !thisFirst {
						ch = []*ref.Rewrite{o.rw, ref.T()}
						tag = o.tag + " " + map[ref.Kind]string{ref.Union: "or", ref.Inter: "and", ref.Diff: "but not"}[k] + " THIS"
					}
					m := GraphModel(map[string]RelSpec{
						"a": {&ref.Rewrite{Kind: k, Ch: ch}, lists[ln], ""},
						"b": {ref.T(), []ref.Restriction{u}, ""},
					}, "p:[doc]")
					out = append(out, Tagged{Tag: "same-target: a: " + tag + " with " + ln + " | b: [user]", M: m})
				}
			}
		}
	}
	return out
}

// TTUPairModels: two or three tuple-to-usersets under one operator, over the same or different tuplesets and with the same or
// different computed relations whose type sets are {user}, {group}, {user, group}, {group, user:*}: the operands of an
// intersection may have no type in common (the model is then ill-founded), the subtrahend's types must not leak into the base,
// and two operands that share a tupleset stay two operands.
func TTUPairModels() []Tagged {
	var out []Tagged
	u, g := ref.Restriction{Type: "user"}, ref.Restriction{Type: "group"}
	folder := ref.TypeDef{Name: "folder", Rels: []ref.Relation{
		{Name: "x", Rw: ref.T(), Restr: []ref.Restriction{u}},
		{Name: "y", Rw: ref.T(), Restr: []ref.Restriction{g}},
		{Name: "z", Rw: ref.T(), Restr: []ref.Restriction{u, g}},
		{Name: "w", Rw: ref.T(), Restr: []ref.Restriction{g, {Type: "user", Wildcard: true}}},
	}}
	type leaf struct{ rel, ts string }
	leaves := []leaf{{"x", "p"}, {"y", "p"}, {"z", "p"}, {"w", "p"}, {"x", "q"}, {"y", "q"}}
	mk := func(tag string, rw *ref.Rewrite) {
		// only the relations the rewrite uses are declared (every further node multiplies the schedules to explore)
		doc := ref.TypeDef{Name: "doc", Rels: []ref.Relation{{Name: "a", Rw: rw}}}
		f := ref.TypeDef{Name: "folder"}
		usedTS, usedRel := map[string]bool{}, map[string]bool{}
		for _, c := range rw.Ch {
			usedTS[c.Tupleset], usedRel[c.Rel] = true, true
		}
		for _, ts := range []string{"p", "q"} {
			if usedTS[ts] {
				doc.Rels = append(doc.Rels, ref.Relation{Name: ts, Rw: ref.T(), Restr: []ref.Restriction{{Type: "folder"}}})
			}
		}
		for _, r := range folder.Rels {
			if usedRel[r.Name] {
				f.Rels = append(f.Rels, r)
			}
		}
		out = append(out, Tagged{Tag: "ttu-pair: a: " + tag, M: &ref.Model{Schema: "1.1", Types: []ref.TypeDef{{Name: "user"}, {Name: "group"}, doc, f}}})
	}
	ops := []struct {
		k ref.Kind
		w string
	}{{ref.Inter, "and"}, {ref.Diff, "but not"}, {ref.Union, "or"}}
	for _, op := range ops {
		for _, l := range leaves {
			for _, r := range leaves {
				mk(fmt.Sprintf("%s from %s %s %s from %s", l.rel, l.ts, op.w, r.rel, r.ts),
					&ref.Rewrite{Kind: op.k, Ch: []*ref.Rewrite{ref.TT(l.rel, l.ts), ref.TT(r.rel, r.ts)}})
			}
		}
	}
	for _, t := range [][3]leaf{{leaves[0], leaves[2], leaves[1]}, {leaves[2], leaves[0], leaves[3]}, {leaves[2], leaves[3], leaves[2]}, {leaves[0], leaves[4], leaves[1]}, {leaves[2], leaves[1], leaves[5]}} {
		for _, k := range []ref.Kind{ref.Inter, ref.Union} {
			w := map[ref.Kind]string{ref.Inter: "and", ref.Union: "or"}[k]
			mk(fmt.Sprintf("%s from %s %s %s from %s %s %s from %s", t[0].rel, t[0].ts, w, t[1].rel, t[1].ts, w, t[2].rel, t[2].ts),
				&ref.Rewrite{Kind: k, Ch: []*ref.Rewrite{ref.TT(t[0].rel, t[0].ts), ref.TT(t[1].rel, t[1].ts), ref.TT(t[2].rel, t[2].ts)}})
		}
	}
	return out
}

// TuplesetListModels: the tupleset's restriction list ranges over every list of one to three entries drawn (with repetition)
// from {doc, doc with k, folder, folder with k, bare - a type without the relation}, so that a parent type is named twice (plain and conditioned, in either order,
// or literally twice) before, between and after other parent types; the TTU sits alone, under each operator and on a cycle.
// folder#b reaches group and user:*, doc#b reaches user only, so a lost or doubled TTU edge shows in types and weights.
func TuplesetListModels() []Tagged {
	var out []Tagged
	// "bare" is a parent type WITHOUT the computed relation: a tupleset that names it anywhere makes the model invalid
	entries := []ref.Restriction{{Type: "doc"}, {Type: "doc", Condition: "k"}, {Type: "folder"}, {Type: "folder", Condition: "k"}, {Type: "bare"}}
	var lists [][]ref.Restriction
	var rec func(cur []ref.Restriction)
	rec = func(cur []ref.Restriction) {
		if len(cur) > 0 {
			lists = append(lists, append([]ref.Restriction{}, cur...))
		}
		if len(cur) == 3 {
			return
		}
		for _, e := range entries {
			rec(append(cur, e))
		}
	}
	rec(nil)
	u := []ref.Restriction{{Type: "user"}}
	g := []ref.Restriction{{Type: "group"}}
	as := []RelSpec{
		{ref.TT("b", "p"), nil, "b from p"},
		{ref.U(ref.T(), ref.TT("b", "p")), g, "[group] or b from p"},
		{ref.I(ref.TT("b", "p"), ref.T()), u, "b from p and [user]"},
		{ref.U(ref.T(), ref.TT("a", "p")), u, "[user] or a from p"},
	}
	for _, l := range lists {
		for _, a := range as {
			doc := ref.TypeDef{Name: "doc", Rels: []ref.Relation{
				{Name: "a", Rw: a.Rw, Restr: a.Restr},
				{Name: "b", Rw: ref.T(), Restr: u},
				{Name: "p", Rw: ref.T(), Restr: l},
			}}
			folder := ref.TypeDef{Name: "folder", Rels: []ref.Relation{
				{Name: "a", Rw: ref.T(), Restr: g},
				{Name: "b", Rw: ref.T(), Restr: []ref.Restriction{{Type: "group"}, {Type: "user", Wildcard: true}}},
			}}
			bare := ref.TypeDef{Name: "bare", Rels: []ref.Relation{{Name: "other", Rw: ref.T(), Restr: u}}}
			m := &ref.Model{Schema: "1.1", Types: []ref.TypeDef{{Name: "user"}, {Name: "group"}, doc, folder, bare},
				Conds: []ref.Condition{{Name: "k", Params: []ref.Param{{Name: "x", Type: "int"}}, Expr: "x < 1"}}}
			out = append(out, Tagged{Tag: fmt.Sprintf("tupleset-list: a: %s | b: [user] | p: %v", a.Tag, l), M: m})
		}
	}
	return out
}

// SecondRouteModels: three relations on nested tuple cycles with a second route into the inner ones - every relation is a union
// of a direct assignment (to user and/or the usersets of the other two) with computed and tuple-to-userset references to the
// others, so that a relation is reached again, already weighted, while two cycles through it are still open.
func SecondRouteModels() []Tagged {
	var out []Tagged
	names := []string{"a", "b", "c"}
	type spec struct {
		tag string
		rw  *ref.Rewrite
		l   []ref.Restriction
	}
	mk := func(self int) []spec {
		o1, o2 := names[(self+1)%3], names[(self+2)%3]
		us := func(r string) ref.Restriction { return ref.Restriction{Type: "doc", Relation: r} }
		u := ref.Restriction{Type: "user"}
		return []spec{
			{o1 + " from p", ref.TT(o1, "p"), nil},
			{"[doc#" + o2 + "] or " + o1 + " or " + o2, ref.U(ref.T(), ref.C(o1), ref.C(o2)), []ref.Restriction{us(o2)}},
			{"[user, doc#" + o1 + "] or " + o1 + " or " + o2 + " from p", ref.U(ref.T(), ref.C(o1), ref.TT(o2, "p")), []ref.Restriction{u, us(o1)}},
			{"[user, doc#" + o2 + "] or " + o2 + " or " + o1 + " from p", ref.U(ref.T(), ref.C(o2), ref.TT(o1, "p")), []ref.Restriction{u, us(o2)}},
			{"[user] or " + o1 + " from p or " + o2 + " from p", ref.U(ref.T(), ref.TT(o1, "p"), ref.TT(o2, "p")), []ref.Restriction{u}},
			{"[doc#" + o1 + ", doc#" + o2 + "] or " + o2, ref.U(ref.T(), ref.C(o2)), []ref.Restriction{us(o1), us(o2)}},
			{"[user, doc#" + o1 + ", doc#" + o2 + "]", ref.T(), []ref.Restriction{u, us(o1), us(o2)}},
			{o1 + " or " + o2 + " from p", ref.U(ref.C(o1), ref.TT(o2, "p")), nil},
		}
	}
	as, bs, cs := mk(0), mk(1), mk(2)
	for _, a := range as {
		for _, b := range bs {
			for _, c := range cs {
				m := GraphModel(map[string]RelSpec{"a": {a.rw, a.l, ""}, "b": {b.rw, b.l, ""}, "c": {c.rw, c.l, ""}}, "p:[doc]")
				out = append(out, Tagged{Tag: fmt.Sprintf("second-route: a: %s | b: %s | c: %s", a.tag, b.tag, c.tag), M: m})
			}
		}
	}
	return out
}

// RenameSchemes: names a sloppy string operation inside the graph code could trip over. "R-prefix": every name begins with
// the letter of the builder's internal cycle-placeholder prefix "R#" (a TrimLeft with that cutset eats into the name);
// "operator-words": types and relations called union / intersection / exclusion (the display labels of operator nodes);
// "separators": extended identifiers with '.', '/', '-', '_' and a digit first.
var RenameSchemes = []struct {
	Tag string
	F   func(kind, name string) string
}{
	{"R-prefix", func(kind, name string) string {
		if kind == "condition" {
			return name
		}
		return "R" + name
	}},
	{"operator-words", func(kind, name string) string {
		w := map[string]string{"doc": "union", "folder": "intersection", "group": "exclusion", "a": "union", "b": "exclusion", "c": "intersection", "p": "this"}
		if kind != "condition" {
			if v, ok := w[name]; ok {
				return v
			}
		}
		return name
	}},
	{"separators", func(kind, name string) string {
		w := map[string]string{"doc": "doc.x/y-z", "folder": "folder_1", "group": "9group", "a": "a.b", "b": "a-b", "c": "a/b", "p": "a_b"}
		if kind != "condition" {
			if v, ok := w[name]; ok {
				return v
			}
		}
		return name
	}},
}

// Renamed returns the models under every rename scheme.
func Renamed(ms []Tagged) []Tagged {
	var out []Tagged
	for _, sc := range RenameSchemes {
		for _, tm := range ms {
			out = append(out, Tagged{Tag: "renamed(" + sc.Tag + "): " + tm.Tag, M: ref.Rename(tm.M, sc.F)})
		}
	}
	return out
}
