package gen

import (
	"fmt"

	"verif/ref"
)

// Injection is an invalid document derived from a valid base model by one
// structural defect of the C09 catalogue.
type Injection struct {
	Kind string // catalogue entry
	Tag  string
	M    *ref.Model
	// Mark is the source-map key of the name an error must point at (C16), ""
	// when the defect is purely syntactic.
	Mark string
}

func cloneModel(m *ref.Model) *ref.Model {
	c := *m
	c.Types = make([]ref.TypeDef, len(m.Types))
	for i, t := range m.Types {
		c.Types[i] = t
		c.Types[i].Rels = make([]ref.Relation, len(t.Rels))
		for j, r := range t.Rels {
			c.Types[i].Rels[j] = r
			c.Types[i].Rels[j].Rw = r.Rw.Clone()
			c.Types[i].Rels[j].Restr = append([]ref.Restriction(nil), r.Restr...)
		}
	}
	c.Conds = make([]ref.Condition, len(m.Conds))
	for i, cd := range m.Conds {
		c.Conds[i] = cd
		c.Conds[i].Params = append([]ref.Param(nil), cd.Params...)
	}
	return &c
}

// walk calls f for every node with its parent (nil for the root) and whether
// the node lies on the first-operand spine.
func walk(r *ref.Rewrite, parent *ref.Rewrite, spine bool, path string, f func(n, parent *ref.Rewrite, spine bool, path string)) {
	f(r, parent, spine, path)
	for i, c := range r.Ch {
		walk(c, r, spine && i == 0, fmt.Sprintf("%s.%d", path, i), f)
	}
}

func nodeAt(r *ref.Rewrite, path []int) *ref.Rewrite {
	for _, i := range path {
		r = r.Ch[i]
	}
	return r
}

func paths(r *ref.Rewrite) [][]int {
	var out [][]int
	var rec func(n *ref.Rewrite, p []int)
	rec = func(n *ref.Rewrite, p []int) {
		out = append(out, append([]int{}, p...))
		for i, c := range n.Ch {
			rec(c, append(p, i))
		}
	}
	rec(r, nil)
	return out
}

// Injections lists every single injection of the catalogue at every site of base.
func Injections(base Tagged) []Injection {
	var out []Injection
	m := base.M
	add := func(kind, tag string, im *ref.Model, mark string) {
		out = append(out, Injection{Kind: kind, Tag: base.Tag + " / " + kind + ":" + tag, M: im, Mark: mark})
	}
	for ti, t := range m.Types {
		for ri, rel := range t.Rels {
			ps := paths(rel.Rw)
			for _, p := range ps {
				if len(p) == 0 {
					continue
				}
				n := nodeAt(rel.Rw, p)
				par := nodeAt(rel.Rw, p[:len(p)-1])
				spine := true
				for _, i := range p {
					if i != 0 {
						spine = false
					}
				}
				// 1. mixed operators: drop the mandatory parentheses of a nested operator of another kind
				if n.Kind >= ref.Union && (n.Kind != par.Kind || n.Kind == ref.Diff) {
					im := cloneModel(m)
					nodeAt(im.Types[ti].Rels[ri].Rw, p).NoParen = true
					add("mixed-operators", fmt.Sprintf("%s.%s@%v", t.Name, rel.Name, p), im, "")
				}
				// 2. direct assignment that is not the first operand
				if !spine && n.Kind <= ref.TTU {
					im := cloneModel(m)
					*nodeAt(im.Types[ti].Rels[ri].Rw, p) = ref.Rewrite{Kind: ref.This}
					if len(im.Types[ti].Rels[ri].Restr) == 0 {
						im.Types[ti].Rels[ri].Restr = []ref.Restriction{{Type: "user"}}
					}
					add("direct-not-first", fmt.Sprintf("%s.%s@%v", t.Name, rel.Name, p), im, "")
				}
				// 1b. an operator leaf position turned into a different operator at the same level
				if n.Kind <= ref.TTU && n.Kind != ref.This && p[len(p)-1] > 0 {
					for _, k := range []ref.Kind{ref.Union, ref.Inter, ref.Diff} {
						if k == par.Kind && k != ref.Diff {
							continue
						}
						im := cloneModel(m)
						*nodeAt(im.Types[ti].Rels[ri].Rw, p) = ref.Rewrite{Kind: k, NoParen: true, Ch: []*ref.Rewrite{n.Clone(), ref.C("b")}}
						add("mixed-operators", fmt.Sprintf("%s.%s@%v+%d", t.Name, rel.Name, p, k), im, "")
					}
				}
			}
			if rel.Rw.CountThis() > 0 {
				// 3. empty restriction list
				im := cloneModel(m)
				im.Types[ti].Rels[ri].Restr = []ref.Restriction{}
				add("empty-restrictions", t.Name+"."+rel.Name, im, "")
				// 4. wildcard combined with a relation
				for xi := range rel.Restr {
					im := cloneModel(m)
					im.Types[ti].Rels[ri].Restr[xi].Wildcard = true
					im.Types[ti].Rels[ri].Restr[xi].Relation = "member"
					add("wildcard-with-relation", fmt.Sprintf("%s.%s[%d]", t.Name, rel.Name, xi), im, "")
				}
			}
			// 5. relation defined twice: a copy of relation ri inserted at every later position,
			// once with the same body and once with a plain direct assignment
			for pos := ri + 1; pos <= len(t.Rels); pos++ {
				for v := 0; v < 2; v++ {
					im := cloneModel(m)
					dup := im.Types[ti].Rels[ri]
					dup.Rw = dup.Rw.Clone()
					if v == 1 {
						dup.Rw = ref.T()
						dup.Restr = []ref.Restriction{{Type: "user"}}
					}
					rs := append([]ref.Relation{}, im.Types[ti].Rels[:pos]...)
					rs = append(rs, dup)
					rs = append(rs, im.Types[ti].Rels[pos:]...)
					im.Types[ti].Rels = rs
					add("duplicate-relation", fmt.Sprintf("%s.%s@%d/%d", t.Name, rel.Name, pos, v), im, ref.MarkR(ti, pos))
				}
			}
		}
		// 7. extend in a non-modular model
		if m.Module == "" && !t.Extend {
			im := cloneModel(m)
			im.Types[ti].Extend = true
			add("extend-in-model", t.Name, im, ref.MarkT(ti))
		}
		// 8. same type extended twice in one module file
		if m.Module != "" && t.Extend {
			for pos := ti + 1; pos <= len(m.Types); pos++ {
				im := cloneModel(m)
				dup := ref.TypeDef{Name: t.Name, Extend: true, Rels: []ref.Relation{{Name: "extra_rel", Rw: ref.T(), Restr: []ref.Restriction{{Type: "user"}}}}}
				ts := append([]ref.TypeDef{}, im.Types[:pos]...)
				ts = append(ts, dup)
				ts = append(ts, im.Types[pos:]...)
				im.Types = ts
				add("extended-twice", fmt.Sprintf("%s@%d", t.Name, pos), im, ref.MarkT(pos))
			}
		}
	}
	for ci, c := range m.Conds {
		// 6a. duplicate condition
		for pos := ci + 1; pos <= len(m.Conds); pos++ {
			im := cloneModel(m)
			dup := im.Conds[ci]
			dup.Params = []ref.Param{{Name: "other", Type: "string"}}
			dup.Expr = "other == other"
			cs := append([]ref.Condition{}, im.Conds[:pos]...)
			cs = append(cs, dup)
			cs = append(cs, im.Conds[pos:]...)
			im.Conds = cs
			add("duplicate-condition", fmt.Sprintf("%s@%d", c.Name, pos), im, ref.MarkC(pos))
			// the same with an empty body (the grammar allows it) in the first, the second, both definitions
			for v, empties := range [][2]bool{{true, false}, {false, true}, {true, true}} {
				em := cloneModel(im)
				if empties[0] {
					em.Conds[ci].Expr = ""
				}
				if empties[1] {
					em.Conds[pos].Expr = ""
				}
				add("duplicate-condition", fmt.Sprintf("%s@%d/empty-body-%d", c.Name, pos, v), em, ref.MarkC(pos))
			}
		}
		// 6b. duplicate parameter
		for pi, p := range c.Params {
			for pos := pi + 1; pos <= len(c.Params); pos++ {
				// the later declaration of the name with a plain type, with the container types, and with the first one's own type
				for v, ty := range []ref.Param{{Type: "bool"}, {Type: "list", Generic: "string"}, {Type: "map", Generic: "int"}, {Type: p.Type, Generic: p.Generic}} {
					im := cloneModel(m)
					dup := p
					dup.Type, dup.Generic = ty.Type, ty.Generic
					ps := append([]ref.Param{}, im.Conds[ci].Params[:pos]...)
					ps = append(ps, dup)
					ps = append(ps, im.Conds[ci].Params[pos:]...)
					im.Conds[ci].Params = ps
					tag := fmt.Sprintf("%s.%s@%d", c.Name, p.Name, pos)
					if v > 0 {
						tag += fmt.Sprintf("/as-%s", ty.Type)
					}
					add("duplicate-parameter", tag, im, ref.MarkP(ci, pos))
				}
			}
			// 10. container without / with nested element type
			for vi, bad := range []ref.Param{
				{Name: p.Name, Type: "list"}, {Name: p.Name, Type: "map"},
				{Name: p.Name, Type: "list", Generic: "list<int>"}, {Name: p.Name, Type: "map", Generic: "map<string>"},
				{Name: p.Name, Type: "list", Generic: ""}, {Name: p.Name, Type: "map", Generic: "string, int"},
			} {
				if vi == 4 {
					bad.Generic = "list" // list<list>
				}
				im := cloneModel(m)
				im.Conds[ci].Params[pi] = bad
				add("bad-container-type", fmt.Sprintf("%s.%s/%d", c.Name, p.Name, vi), im, "")
			}
		}
	}
	// 9. both / neither header
	for h := 1; h <= 3; h++ {
		im := cloneModel(m)
		im.Hdr = h
		add("headers", fmt.Sprintf("%d", h), im, "")
	}
	return out
}
