package gen

// DSLLexemes is the lexeme alphabet for arbitrary-text enumeration of DSL
// inputs: keywords, names, punctuation, operators, every whitespace/newline
// form, a comment marker, a non-ASCII rune and unlexable runes.
var DSLLexemes = []string{
	"model", "schema", "1.1", "module", "type", "extend", "relations", "define", "condition",
	"user", "a", ":", ",", "[", "]", "(", ")", "or", "and", "but not", "from", "with",
	"#", "*", " ", "\n", "\r\n", "\t", "{", "}", "<", ">", "int", "list", "\f", "é", "\"", "$",
}

// DSLLexemesSmall is a reduced alphabet for deeper enumeration.
var DSLLexemesSmall = []string{
	"model", "schema", "1.1", "module", "type", "extend", "relations", "define", "condition",
	"a", ":", ",", "[", "]", "(", ")", "or", "but not", "from", "with", "#", "*", " ", "\n", "{", "}", "<", "int", "list", "$",
}

// DSLContexts are valid document prefixes that put the parser into the
// interesting grammar states; enumerated lexeme strings are appended to each.
var DSLContexts = []string{
	"",
	"model\n  schema 1.1\n",
	"module m\n",
	"model\n  schema 1.1\ntype user\ntype doc\n  relations\n    define a: [user]\n    define b: ",
	"model\n  schema 1.1\ntype user\ntype doc\n  relations\n    define a: [user",
	"model\n  schema 1.1\ntype user\ntype doc\n  relations\n    define a: (a or ",
	"model\n  schema 1.1\ntype user\ncondition c(",
	"model\n  schema 1.1\ntype user\ncondition c(x: int) {",
	"module m\nextend type doc\n  relations\n    define a: [user]\n",
	"model\n  schema 1.1\ntype user # comment\n  # full\ntype doc\n",
}

// LexemeStrings calls f with every concatenation of exactly n lexemes, in
// lexicographic order of indices; idx is the running number.
func LexemeStrings(alpha []string, n int, f func(idx int, s string)) {
	if n == 0 {
		f(0, "")
		return
	}
	ix := make([]int, n)
	count := 0
	buf := make([]byte, 0, 64)
	for {
		buf = buf[:0]
		for i := 0; i < n; i++ {
			buf = append(buf, alpha[ix[i]]...)
		}
		f(count, string(buf))
		count++
		k := n - 1
		for k >= 0 {
			ix[k]++
			if ix[k] < len(alpha) {
				break
			}
			ix[k] = 0
			k--
		}
		if k < 0 {
			return
		}
	}
}

// Pow returns base^n.
func Pow(base, n int) int {
	p := 1
	for i := 0; i < n; i++ {
		p *= base
	}
	return p
}
