package rt

import (
	"fmt"
	"sync"
	"time"
)

// Cooperative scheduler: controlled threads are goroutines of which exactly one
// runs at a time. At every scheduling point (Yield, shim mutex operations,
// thread start and exit) the scheduler picks the next thread through
// Choose("sched", n) with the running thread listed first, so that answer 0 is
// "no preemption". The very first pick uses the site "sched-start" (which
// thread starts is not a preemption).

type thread struct {
	id      int
	resume  chan struct{}
	done    bool
	blocked *MutexState
	panic   any
}

type scheduler struct {
	threads  []*thread
	current  *thread
	parked   chan struct{}
	points   int
	horizon  int
	overrun  bool
	lost     bool
	lastSite string
}

var sch *scheduler

// SchedResult describes one controlled multi-threaded execution.
type SchedResult struct {
	Deadlock bool  // some thread is blocked and none is enabled
	Overrun  bool  // the step horizon was exceeded (livelock suspected)
	Lost     bool  // a thread did not come back to the scheduler (uncontrolled blocking): infrastructure problem
	Panics   []any // per thread, nil if none
	Points   int   // scheduling points passed
}

// SchedActive reports whether a controlled multi-threaded execution is running.
func SchedActive() bool { return sch != nil }

// RunThreads runs the functions as controlled threads to completion (or
// deadlock). It must be called from the harness goroutine, inside rt.Run for
// the schedule to be recorded and explored.
func RunThreads(horizon int, fns ...func()) SchedResult {
	if sch != nil {
		panic("rt: nested RunThreads")
	}
	s := &scheduler{parked: make(chan struct{}), horizon: horizon}
	for i, f := range fns {
		t := &thread{id: i, resume: make(chan struct{})}
		s.threads = append(s.threads, t)
		f := f
		go func() {
			<-t.resume
			func() {
				defer func() {
					if p := recover(); p != nil {
						t.panic = p
					}
				}()
				f()
			}()
			t.done = true
			s.parked <- struct{}{}
		}()
	}
	sch = s
	defer func() { sch = nil }()
	first := true
	for {
		var enabled []*thread
		if s.current != nil && !s.current.done && s.current.blocked == nil {
			enabled = append(enabled, s.current)
		}
		allDone := true
		for _, t := range s.threads {
			if !t.done {
				allDone = false
				if t.blocked == nil && t != s.current {
					enabled = append(enabled, t)
				}
			}
		}
		res := SchedResult{Points: s.points}
		collect := func() SchedResult {
			for _, t := range s.threads {
				res.Panics = append(res.Panics, t.panic)
			}
			return res
		}
		if allDone {
			return collect()
		}
		if len(enabled) == 0 {
			res.Deadlock = true
			return collect()
		}
		if s.points > s.horizon {
			res.Overrun = true
			return collect()
		}
		site := "sched"
		if first {
			site = "sched-start"
			first = false
		}
		c := Choose(site, len(enabled))
		t := enabled[c]
		s.current = t
		s.points++
		t.resume <- struct{}{}
		select {
		case <-s.parked:
		case <-time.After(60 * time.Second):
			res.Lost = true
			return collect()
		}
	}
}

// Yield is a scheduling point. Outside a controlled execution it does nothing.
func Yield(site string) {
	s := sch
	if s == nil {
		return
	}
	t := s.current
	s.lastSite = site
	s.parked <- struct{}{}
	<-t.resume
}

// MutexState is the state of a shim mutex (used in place of sync.Mutex /
// sync.RWMutex in instrumented third-party code).
type MutexState struct {
	real    sync.RWMutex
	locked  bool
	readers int
}

func (m *MutexState) wait(cond func() bool) {
	for cond() {
		s := sch
		t := s.current
		t.blocked = m
		s.parked <- struct{}{}
		<-t.resume
	}
}

func wake(m *MutexState) {
	for _, t := range sch.threads {
		if t.blocked == m {
			t.blocked = nil
		}
	}
}

// Lock acquires the mutex exclusively.
func (m *MutexState) Lock() {
	if sch == nil {
		m.real.Lock()
		return
	}
	Yield("mutex.Lock")
	m.wait(func() bool { return m.locked || m.readers > 0 })
	m.locked = true
}

// TryLock acquires the mutex exclusively if it is free.
func (m *MutexState) TryLock() bool {
	if sch == nil {
		return m.real.TryLock()
	}
	Yield("mutex.TryLock")
	if m.locked || m.readers > 0 {
		return false
	}
	m.locked = true
	return true
}

// Unlock releases the mutex.
func (m *MutexState) Unlock() {
	if sch == nil {
		m.real.Unlock()
		return
	}
	if !m.locked {
		panic(fmt.Sprintf("rt: unlock of unlocked shim mutex"))
	}
	m.locked = false
	wake(m)
}

// RLock acquires the mutex shared.
func (m *MutexState) RLock() {
	if sch == nil {
		m.real.RLock()
		return
	}
	Yield("mutex.RLock")
	m.wait(func() bool { return m.locked })
	m.readers++
}

// RUnlock releases a shared hold.
func (m *MutexState) RUnlock() {
	if sch == nil {
		m.real.RUnlock()
		return
	}
	m.readers--
	if m.readers == 0 {
		wake(m)
	}
}
