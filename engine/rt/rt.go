// Package rt is the choice machine of the verification engine.
//
// Every source of nondeterminism that the checked code has (map iteration
// order, scheduling of cooperative threads) is routed through Choose. An
// execution is one run of a harness body in which every Choose is answered
// from a recorded prefix and with 0 afterwards. Explore enumerates the choice
// sequences depth first under a deviation budget (iterative context bounding
// generalised to arbitrary choice points).
package rt

import (
	"cmp"
	"fmt"
	"iter"
	"slices"
)

// Point is one answered choice point of an execution.
type Point struct {
	Site   string
	N      int
	Choice int
}

// Divergence is raised (as a panic) when a replayed prefix meets a choice
// point that differs from the one recorded: nondeterminism we do not own.
type Divergence struct {
	At       int
	Expected Point
	Got      Point
}

func (d Divergence) Error() string {
	return fmt.Sprintf("rt: divergence at choice %d: expected site=%s n=%d, got site=%s n=%d",
		d.At, d.Expected.Site, d.Expected.N, d.Got.Site, d.Got.N)
}

type machine struct {
	active bool
	prefix []int
	expect []Point // optional: recorded points of the parent execution for prefix positions
	points []Point
	steps  int64
	limit  int64
}

var m machine

// Active reports whether an execution is being recorded.
func Active() bool { return m.active }

// Choose answers a choice point with n alternatives (0..n-1). Outside a
// controlled execution, and for n <= 1, the answer is 0 and nothing is
// recorded.
func Choose(site string, n int) int {
	if !m.active || n <= 1 {
		return 0
	}
	i := len(m.points)
	c := 0
	if i < len(m.prefix) {
		c = m.prefix[i]
		if i < len(m.expect) {
			if e := m.expect[i]; e.Site != site || e.N != n {
				panic(Divergence{At: i, Expected: e, Got: Point{site, n, c}})
			}
		}
		if c >= n || c < 0 {
			panic(Divergence{At: i, Expected: Point{site, c + 1, c}, Got: Point{site, n, c}})
		}
	}
	m.points = append(m.points, Point{site, n, c})
	return c
}

// Iter is controlled map iteration. It yields every key of mp exactly once:
// the keys are collected and sorted canonically, then drawn one at a time with
// Choose(site, remaining), so answer 0 everywhere is sorted order and every
// permutation is reachable. Keys deleted before they are drawn are skipped
// (Go semantics); keys added during the iteration are not produced (allowed by
// the Go specification). Choices are drawn lazily, so an early break makes no
// further choices.
func Iter[K cmp.Ordered, V any](site string, mp map[K]V) iter.Seq[K] {
	return func(yield func(K) bool) {
		keys := make([]K, 0, len(mp))
		for k := range mp {
			keys = append(keys, k)
		}
		slices.Sort(keys)
		var inert []K
		if pred := pinned[site]; pred != nil && m.active {
			act := keys[:0:0]
			for _, k := range keys {
				if pred(k) {
					inert = append(inert, k)
				} else {
					act = append(act, k)
				}
			}
			keys = act
		}
		for len(keys) > 0 {
			// drop keys that were deleted meanwhile, so that they do not
			// produce choice points without behaviour
			live := keys[:0]
			for _, k := range keys {
				if _, ok := mp[k]; ok {
					live = append(live, k)
				}
			}
			keys = live
			if len(keys) == 0 {
				break
			}
			c := Choose(site, len(keys))
			k := keys[c]
			keys = append(keys[:c], keys[c+1:]...)
			if !yield(k) {
				return
			}
		}
		for _, k := range inert {
			if _, ok := mp[k]; ok {
				if !yield(k) {
					return
				}
			}
		}
	}
}

var pinned = map[string]func(key any) bool{}

// PinLast declares keys of a site inert: they are yielded last, in canonical
// order, without choice points. The harness must justify that the iterations
// for such keys have no effect (and must explore the site unpinned under some
// bounded budget as well, so that a change giving them an effect is seen).
// A nil predicate removes the pin.
func PinLast(site string, pred func(key any) bool) {
	if pred == nil {
		delete(pinned, site)
		return
	}
	pinned[site] = pred
}

// Iter2 is Iter for `for k, v := range m`: the value is looked up when the key
// is drawn, as Go does.
func Iter2[K cmp.Ordered, V any](site string, mp map[K]V) iter.Seq2[K, V] {
	return func(yield func(K, V) bool) {
		for k := range Iter(site, mp) {
			if !yield(k, mp[k]) {
				return
			}
		}
	}
}

// IterValues is the controlled form of maps.Values.
func IterValues[K cmp.Ordered, V any](site string, mp map[K]V) iter.Seq[V] {
	return func(yield func(V) bool) {
		for k := range Iter(site, mp) {
			if !yield(mp[k]) {
				return
			}
		}
	}
}

// Drawer hands out the keys of a map one at a time in a controlled order
// (lazy form of Iter for third-party iterator types).
type Drawer[K cmp.Ordered] struct {
	site string
	rest []K
}

// NewDrawer collects and sorts the keys; nothing is drawn yet.
func NewDrawer[K cmp.Ordered, V any](site string, mp map[K]V) *Drawer[K] {
	keys := make([]K, 0, len(mp))
	for k := range mp {
		keys = append(keys, k)
	}
	slices.Sort(keys)
	return &Drawer[K]{site: site, rest: keys}
}

// Len is the number of keys not yet drawn.
func (d *Drawer[K]) Len() int { return len(d.rest) }

// Next draws the next key.
func (d *Drawer[K]) Next() (K, bool) {
	var zero K
	if len(d.rest) == 0 {
		return zero, false
	}
	c := Choose(d.site, len(d.rest))
	k := d.rest[c]
	d.rest = append(d.rest[:c], d.rest[c+1:]...)
	return k, true
}

// Order returns a controlled permutation of 0..n-1 (same drawing discipline as
// Iter), for sites that are not Go maps (e.g. a node list handed out by a
// third-party iterator).
func Order(site string, n int) []int {
	rest := make([]int, n)
	for i := range rest {
		rest[i] = i
	}
	out := make([]int, 0, n)
	for len(rest) > 0 {
		c := Choose(site, len(rest))
		out = append(out, rest[c])
		rest = append(rest[:c], rest[c+1:]...)
	}
	return out
}

// Step counts one unit of deterministic work (function entry or loop
// iteration in step-instrumented builds). Exceeding the limit set by
// SetStepLimit panics with StepLimit.
func Step() {
	m.steps++
	if m.limit > 0 && m.steps > m.limit {
		panic(StepLimit{m.steps})
	}
}

// StepLimit is the panic value raised when the step horizon is exceeded.
type StepLimit struct{ Steps int64 }

func (s StepLimit) Error() string { return fmt.Sprintf("rt: step horizon exceeded (%d)", s.Steps) }

// ResetSteps zeroes the step counter and sets the horizon (0 = none).
func ResetSteps(limit int64) { m.steps = 0; m.limit = limit }

// Steps returns the current step count.
func Steps() int64 { return m.steps }

// Run executes body once under the given choice prefix and returns the points
// answered. A Divergence panic is propagated; any other panic is propagated as
// well (harness bodies recover what they must observe themselves).
func Run(prefix []int, expect []Point, body func()) []Point {
	if m.active {
		panic("rt: nested Run")
	}
	m.active = true
	m.prefix = prefix
	m.expect = expect
	m.points = make([]Point, 0, 16)
	defer func() { m.active = false; m.prefix = nil; m.expect = nil }()
	body()
	return m.points
}

// Config bounds an exploration.
type Config struct {
	// Class maps a site to its cost class. nil means one class "".
	Class func(site string) string
	// Budget is the maximal number of deviations (non-zero answers) per class
	// in one execution. A negative value means unlimited (the class is free);
	// a class without entry has budget 0.
	Budget map[string]int
	// MaxExec caps the number of executions (0 = no cap). When the cap is hit
	// Explore reports Complete=false.
	MaxExec int
	// Stop, when non-nil, is polled between executions; returning true ends
	// the exploration early (Complete=false).
	Stop func() bool
	// RootFilter, when non-nil, restricts the successors of the default
	// execution to the deviation points it accepts: lets several workers share
	// one exploration (each runs the default execution and its part of the tree).
	RootFilter func(pointIndex int) bool
}

// Stats describes a finished exploration.
type Stats struct {
	Executions int
	Points     int  // total choice points answered
	MaxPoints  int  // longest execution
	Complete   bool // the whole budgeted space was enumerated
}

func (c *Config) class(site string) string {
	if c.Class == nil {
		return ""
	}
	return c.Class(site)
}

// Explore enumerates all executions of body whose deviations stay within the
// budget, depth first, default execution first. visit is called after each
// execution with its points; returning false stops the exploration.
func Explore(cfg Config, body func(), visit func(points []Point) bool) Stats {
	st := Stats{Complete: true}
	type item struct {
		prefix []int
		expect []Point
	}
	stack := []item{{}}
	for len(stack) > 0 {
		it := stack[len(stack)-1]
		stack = stack[:len(stack)-1]
		if cfg.MaxExec > 0 && st.Executions >= cfg.MaxExec {
			st.Complete = false
			break
		}
		if cfg.Stop != nil && cfg.Stop() {
			st.Complete = false
			break
		}
		pts := Run(it.prefix, it.expect, body)
		st.Executions++
		st.Points += len(pts)
		if len(pts) > st.MaxPoints {
			st.MaxPoints = len(pts)
		}
		if len(pts) < len(it.prefix) {
			panic(Divergence{At: len(pts), Expected: it.expect[len(pts)], Got: Point{"<end of execution>", 0, 0}})
		}
		if !visit(pts) {
			st.Complete = false
			break
		}
		// successors: deviate at one later point
		used := map[string]int{}
		for i := 0; i < len(it.prefix); i++ {
			if pts[i].Choice != 0 {
				used[cfg.class(pts[i].Site)]++
			}
		}
		var succ []item
		for i := len(it.prefix); i < len(pts); i++ {
			p := pts[i]
			if cfg.RootFilter != nil && len(it.prefix) == 0 && !cfg.RootFilter(i) {
				continue
			}
			cl := cfg.class(p.Site)
			b, ok := cfg.Budget[cl]
			if !ok {
				b = 0
			}
			if b >= 0 && used[cl]+1 > b {
				continue
			}
			for alt := 1; alt < p.N; alt++ {
				np := make([]int, i+1)
				for j := 0; j < i; j++ {
					np[j] = pts[j].Choice
				}
				np[i] = alt
				ne := make([]Point, i+1)
				copy(ne, pts[:i+1])
				succ = append(succ, item{np, ne})
			}
		}
		// push in reverse so that the smallest deviation is explored first
		for i := len(succ) - 1; i >= 0; i-- {
			stack = append(stack, succ[i])
		}
	}
	return st
}

// Choices extracts the answers of an execution (a replayable schedule).
func Choices(points []Point) []int {
	out := make([]int, len(points))
	for i, p := range points {
		out[i] = p.Choice
	}
	// trailing zeros are implied
	for len(out) > 0 && out[len(out)-1] == 0 {
		out = out[:len(out)-1]
	}
	return out
}

// ---- process state of the code under test -------------------------------------------------

var resetFns []func()

// RegisterReset registers a function that restores package-level state of instrumented code to its initial value (generated
// by the instrumenter in the sched variant).
func RegisterReset(f func()) { resetFns = append(resetFns, f) }

// ResetGlobals runs every registered reset function and reports how many there are.
func ResetGlobals() int {
	for _, f := range resetFns {
		f()
	}
	return len(resetFns)
}
