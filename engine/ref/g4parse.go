package ref

import (
	"fmt"
	"strings"
)

// Reference recogniser for a parser grammar over sequences of token types,
// with ANTLR's resolution of ambiguity: at every decision the lowest
// alternative for which the whole remaining input can still be parsed;
// optional elements and loops greedy (non-greedy ones the other way round).

// TokSeq is a sentence: symbolic token names; the recogniser appends EOF.
type TokSeq []string

type frame struct {
	elems []*Elem
	idx   int
	next  *frame
	// loop continuation: after one iteration of a starred element, optionally iterate again
	loop *Elem
	// rule boundary: closing the tree node of a rule
	closeRule bool
}

// Recogniser interprets a parser grammar.
type Recogniser struct {
	G        *Grammar
	toks     []string
	memoSeq  map[string]map[int]bool
	tokenSet map[string]bool
}

func NewRecogniser(g *Grammar, tokenNames []string) *Recogniser {
	r := &Recogniser{G: g, tokenSet: map[string]bool{}}
	for _, t := range tokenNames {
		r.tokenSet[t] = true
	}
	return r
}

func (r *Recogniser) tokenMatches(e *Elem, pos int) bool {
	if pos >= len(r.toks) {
		return false
	}
	t := r.toks[pos]
	switch e.Kind {
	case ETokenRef:
		return t == e.Name
	case EEOF:
		return t == "EOF"
	case ENot:
		// ~X over tokens: any token except the listed ones and EOF
		if t == "EOF" {
			return false
		}
		return !r.inTokenSet(e.Sub, t)
	case EAny:
		return t != "EOF"
	}
	return false
}

func (r *Recogniser) inTokenSet(e *Elem, t string) bool {
	switch e.Kind {
	case ETokenRef:
		return e.Name == t
	case EBlock:
		for _, a := range e.Alts {
			if len(a.Elems) == 1 && r.inTokenSet(a.Elems[0], t) {
				return true
			}
		}
	}
	return false
}

// one: end positions of one occurrence of e.
func (r *Recogniser) one(e *Elem, pos int) map[int]bool {
	switch e.Kind {
	case ETokenRef, EEOF, ENot, EAny:
		if r.tokenMatches(e, pos) {
			return map[int]bool{pos + 1: true}
		}
		return map[int]bool{}
	case ERuleRef:
		rule := r.G.ByName[e.Name]
		if rule == nil {
			return map[int]bool{}
		}
		return r.alts(fmt.Sprintf("R%d", rule.Index), rule.Alts, pos)
	case EBlock:
		return r.alts(fmt.Sprintf("B%d", e.id), e.Alts, pos)
	}
	return map[int]bool{}
}

func (r *Recogniser) alts(key string, alts []*Alt, pos int) map[int]bool {
	k := fmt.Sprintf("%s@%d", key, pos)
	if v, ok := r.memoSeq[k]; ok {
		return v
	}
	r.memoSeq[k] = map[int]bool{} // in progress: no left recursion in this grammar
	out := map[int]bool{}
	for _, a := range alts {
		for e := range r.seq(a.Elems, 0, pos) {
			out[e] = true
		}
	}
	r.memoSeq[k] = out
	return out
}

func (r *Recogniser) elem(e *Elem, pos int) map[int]bool {
	k := fmt.Sprintf("E%d@%d", e.id, pos)
	if v, ok := r.memoSeq[k]; ok {
		return v
	}
	out := map[int]bool{}
	switch e.Suffix {
	case 0:
		out = r.one(e, pos)
	case '?':
		out[pos] = true
		for x := range r.one(e, pos) {
			out[x] = true
		}
	case '*', '+':
		if e.Suffix == '*' {
			out[pos] = true
		}
		frontier := map[int]bool{pos: true}
		seen := map[int]bool{}
		for len(frontier) > 0 {
			next := map[int]bool{}
			for p := range frontier {
				for x := range r.one(e, p) {
					if x > p && !seen[x] {
						seen[x] = true
						out[x] = true
						next[x] = true
					}
				}
			}
			frontier = next
		}
	}
	r.memoSeq[k] = out
	return out
}

func (r *Recogniser) seq(elems []*Elem, idx, pos int) map[int]bool {
	if idx == len(elems) {
		return map[int]bool{pos: true}
	}
	out := map[int]bool{}
	for mid := range r.elem(elems[idx], pos) {
		for e := range r.seq(elems, idx+1, mid) {
			out[e] = true
		}
	}
	return out
}

// canFinish: can the continuation consume the tokens from pos exactly to the end?
func (r *Recogniser) canFinish(k *frame, pos int) bool {
	if k == nil {
		return pos == len(r.toks)
	}
	if k.closeRule {
		return r.canFinish(k.next, pos)
	}
	if k.loop != nil {
		// either iterate again or go on
		if r.canFinish(k.next, pos) {
			return true
		}
		for mid := range r.one(k.loop, pos) {
			if mid > pos && r.canFinish(k, mid) {
				return true
			}
		}
		return false
	}
	for mid := range r.seq(k.elems, k.idx, pos) {
		if r.canFinish(k.next, mid) {
			return true
		}
	}
	return false
}

// Node is a derivation tree node: a rule with children or a token.
type Node struct {
	Rule       string
	Token      string
	Ch         []*Node
	Start, End int // token span of a rule node
}

func (n *Node) String() string {
	if n.Rule == "" {
		return n.Token
	}
	parts := make([]string, len(n.Ch))
	for i, c := range n.Ch {
		parts[i] = c.String()
	}
	return "(" + n.Rule + " " + strings.Join(parts, " ") + ")"
}

// Parse decides membership of the sentence for the start rule and, on
// acceptance, returns the derivation tree ANTLR's resolution selects.
func (r *Recogniser) Parse(start string, sentence TokSeq) (bool, *Node) {
	r.toks = append(append([]string{}, sentence...), "EOF")
	r.memoSeq = map[string]map[int]bool{}
	rule := r.G.ByName[start]
	if rule == nil {
		return false, nil
	}
	ok := false
	for e := range r.alts(fmt.Sprintf("R%d", rule.Index), rule.Alts, 0) {
		if e == len(r.toks) {
			ok = true
		}
	}
	if !ok {
		return false, nil
	}
	root := &Node{Rule: start}
	pos, good := r.buildAlts(rule.Alts, 0, nil, root)
	root.End = pos
	if !good || pos != len(r.toks) {
		return true, nil // accepted, but the preferred tree could not be reconstructed (should not happen)
	}
	return true, root
}

// buildAlts chooses the first alternative that can be completed (given the continuation k) and builds it into parent.
func (r *Recogniser) buildAlts(alts []*Alt, pos int, k *frame, parent *Node) (int, bool) {
	for _, a := range alts {
		f := &frame{elems: a.Elems, idx: 0, next: k}
		if r.canFinish(f, pos) {
			return r.buildSeq(a.Elems, 0, pos, k, parent)
		}
	}
	return pos, false
}

func (r *Recogniser) buildSeq(elems []*Elem, idx, pos int, k *frame, parent *Node) (int, bool) {
	for i := idx; i < len(elems); i++ {
		rest := &frame{elems: elems, idx: i + 1, next: k}
		np, ok := r.buildElem(elems[i], pos, rest, parent)
		if !ok {
			return pos, false
		}
		pos = np
	}
	return pos, true
}

func (r *Recogniser) buildElem(e *Elem, pos int, k *frame, parent *Node) (int, bool) {
	switch e.Suffix {
	case 0:
		return r.buildOne(e, pos, k, parent)
	case '?':
		enter := func() bool {
			for mid := range r.one(e, pos) {
				if r.canFinish(k, mid) {
					return true
				}
			}
			return false
		}
		skip := func() bool { return r.canFinish(k, pos) }
		if e.NonGreedy {
			if skip() {
				return pos, true
			}
			return r.buildOne(e, pos, k, parent)
		}
		if enter() {
			return r.buildOne(e, pos, k, parent)
		}
		if skip() {
			return pos, true
		}
		return pos, false
	case '*', '+':
		first := e.Suffix == '+'
		for {
			loopK := &frame{loop: e, next: k}
			canIter := false
			for mid := range r.one(e, pos) {
				if mid > pos && r.canFinish(loopK, mid) {
					canIter = true
				}
			}
			canExit := !first && r.canFinish(k, pos)
			iterate := canIter
			if e.NonGreedy && canExit {
				iterate = false
			}
			if !iterate {
				if canExit {
					return pos, true
				}
				return pos, false
			}
			np, ok := r.buildOne(e, pos, loopK, parent)
			if !ok || np <= pos {
				return pos, false
			}
			pos = np
			first = false
		}
	}
	return pos, false
}

func (r *Recogniser) buildOne(e *Elem, pos int, k *frame, parent *Node) (int, bool) {
	switch e.Kind {
	case ETokenRef, EEOF, ENot, EAny:
		if !r.tokenMatches(e, pos) {
			return pos, false
		}
		parent.Ch = append(parent.Ch, &Node{Token: r.toks[pos]})
		return pos + 1, true
	case ERuleRef:
		rule := r.G.ByName[e.Name]
		n := &Node{Rule: rule.Name, Start: pos}
		parent.Ch = append(parent.Ch, n)
		np, ok := r.buildAlts(rule.Alts, pos, &frame{closeRule: true, next: k}, n)
		n.End = np
		return np, ok
	case EBlock:
		return r.buildAlts(e.Alts, pos, k, parent)
	}
	return pos, false
}

// ---- recogniser over the deserialised ATN -------------------------------------------------------------

// ATNRecogniser runs a parser ATN as a nondeterministic pushdown recogniser.
type ATNRecogniser struct {
	A     *ATN
	Types map[string]int // symbolic token name -> type
	toks  []int
	memo  map[[2]int]map[int]bool
}

func (a *ATNRecogniser) setHas(s ATNSet, t int) bool {
	if t == -1 {
		return s.EOF
	}
	for _, iv := range s.Intervals {
		if t >= iv[0] && t <= iv[1] {
			return true
		}
	}
	return false
}

// ends: positions at which the current rule reaches its stop state from (state, pos).
func (a *ATNRecogniser) ends(state, pos int) map[int]bool {
	key := [2]int{state, pos}
	if v, ok := a.memo[key]; ok {
		return v
	}
	a.memo[key] = map[int]bool{}
	out := map[int]bool{}
	st := a.A.States[state]
	if st.Type == 7 {
		out[pos] = true
		a.memo[key] = out
		return out
	}
	add := func(m map[int]bool) {
		for k := range m {
			out[k] = true
		}
	}
	for _, t := range st.Trans {
		switch t.Type {
		case 1, 4, 6, 10: // epsilon, predicate, action, precedence
			add(a.ends(t.Target, pos))
		case 3: // rule: A1 = start state of the invoked rule, Target = follow state
			for mid := range a.ends(t.A1, pos) {
				add(a.ends(t.Target, mid))
			}
		default:
			if pos >= len(a.toks) {
				continue
			}
			tok := a.toks[pos]
			ok := false
			switch t.Type {
			case 5: // atom; A3 != 0 means EOF
				lbl := t.A1
				if t.A3 != 0 {
					lbl = -1
				}
				ok = tok == lbl
			case 2: // range
				lo := t.A1
				if t.A3 != 0 {
					lo = -1
				}
				ok = tok >= lo && tok <= t.A2
			case 7:
				ok = a.setHas(a.A.Sets[t.A1], tok)
			case 8:
				ok = tok >= 1 && tok <= a.A.MaxTokenType && !a.setHas(a.A.Sets[t.A1], tok)
			case 9:
				ok = tok >= 1 && tok <= a.A.MaxTokenType
			}
			if ok {
				add(a.ends(t.Target, pos+1))
			}
		}
	}
	a.memo[key] = out
	return out
}

// Accepts decides membership of the sentence for rule number ruleIndex.
func (a *ATNRecogniser) Accepts(ruleIndex int, sentence TokSeq) (bool, error) {
	a.toks = a.toks[:0]
	for _, s := range sentence {
		t, ok := a.Types[s]
		if !ok {
			return false, fmt.Errorf("unknown token %s", s)
		}
		a.toks = append(a.toks, t)
	}
	a.toks = append(a.toks, -1)
	a.memo = map[[2]int]map[int]bool{}
	return a.ends(a.A.RuleStart[ruleIndex], 0)[len(a.toks)], nil
}
