package ref

import (
	"fmt"
	"sort"
	"strings"
)

// Reference model of the weighted authorization-model graph, written from the
// statements of C04, C05, C10 and C11 (not from the implementation's
// algorithm): structure from the rewrite, type sets as a least fixpoint,
// weights as longest hop counts per type with Infinite on reachable cycles,
// well-foundedness as graph conditions, wildcard sets as reachability.

const Inf = 1<<31 - 1

// Node kinds (numbering as in the public NodeType).
const (
	NType = 0
	NRel  = 1
	NOp   = 2
	NWild = 3
)

// Edge kinds (numbering as in the public EdgeType).
const (
	EDirect   = 0
	ERewrite  = 1
	ETTU      = 2
	EComputed = 3
)

type GNode struct {
	ID     string // label for types, relations, wildcards; "op:<type>#<rel>/<path>" for operators
	Kind   int
	Label  string // public label: operators carry "union" / "intersection" / "exclusion"
	Op     Kind
	Edges  []*GEdge
	Groups [][]int // operands: indices into Edges (a relation node has one group)

	T     map[string]bool // terminal types reaching the node
	W     map[string]int  // weights
	Wild  map[string]bool // reachable public types
	index int
}

type GEdge struct {
	From, To *GNode
	Kind     int
	Tupleset string
	Conds    []string
}

type WG struct {
	Nodes   map[string]*GNode
	Order   []*GNode
	Invalid string // structural invalidity found while building (clause c)
}

func (g *WG) node(id string, kind int, label string) *GNode {
	if n, ok := g.Nodes[id]; ok {
		return n
	}
	n := &GNode{ID: id, Kind: kind, Label: label, index: len(g.Order)}
	g.Nodes[id] = n
	g.Order = append(g.Order, n)
	return n
}

func (g *WG) upsert(from, to *GNode, kind int, tupleset, cond string) int {
	if cond == "" {
		cond = "none"
	}
	for i, e := range from.Edges {
		if e.To == to && e.Kind == kind && e.Tupleset == tupleset {
			found := false
			for _, c := range e.Conds {
				if c == cond {
					found = true
				}
			}
			if !found && kind == EDirect {
				e.Conds = append(e.Conds, cond)
			}
			return i
		}
	}
	from.Edges = append(from.Edges, &GEdge{From: from, To: to, Kind: kind, Tupleset: tupleset, Conds: []string{cond}})
	return len(from.Edges) - 1
}

func (g *WG) add(from, to *GNode, kind int) int {
	from.Edges = append(from.Edges, &GEdge{From: from, To: to, Kind: kind, Conds: []string{"none"}})
	return len(from.Edges) - 1
}

var opLabel = map[Kind]string{Union: "union", Inter: "intersection", Diff: "exclusion"}

// BuildWG builds the reference graph of a model.
func BuildWG(m *Model) *WG { return buildWG(m, false) }

// BuildLenient builds the reference graph as the plain (unweighted) graph is
// specified: a tuple-to-userset whose tupleset is undefined or unrestricted
// contributes no edge, and a parent type lacking the relation is skipped.
func BuildLenient(m *Model) *WG { return buildWG(m, true) }

func buildWG(m *Model, lenient bool) *WG {
	g := &WG{Nodes: map[string]*GNode{}}
	types := append([]TypeDef{}, m.Types...)
	sort.SliceStable(types, func(i, j int) bool { return types[i].Name < types[j].Name })
	hasRel := func(tn, rn string) bool {
		for _, t := range m.Types {
			if t.Name == tn {
				for _, r := range t.Rels {
					if r.Name == rn {
						return true
					}
				}
			}
		}
		return false
	}
	for _, t := range types {
		g.node(t.Name, NType, t.Name)
		rels := append([]Relation{}, t.Rels...)
		sort.SliceStable(rels, func(i, j int) bool { return rels[i].Name < rels[j].Name })
		relByName := map[string]*Relation{}
		for i := range rels {
			relByName[rels[i].Name] = &rels[i]
		}
		for _, r := range rels {
			rn := g.node(t.Name+"#"+r.Name, NRel, t.Name+"#"+r.Name)
			var parse func(parent *GNode, rw *Rewrite, path string) []int
			parse = func(parent *GNode, rw *Rewrite, path string) []int {
				if g.Invalid != "" {
					return nil
				}
				switch rw.Kind {
				case This:
					var idx []int
					for _, x := range r.Restr {
						var to *GNode
						switch {
						case x.Wildcard:
							to = g.node(x.Type+":*", NWild, x.Type+":*")
						case x.Relation != "":
							to = g.node(x.Type+"#"+x.Relation, NRel, x.Type+"#"+x.Relation)
						default:
							to = g.node(x.Type, NType, x.Type)
						}
						idx = appendUnique(idx, g.upsert(parent, to, EDirect, "", x.Condition))
					}
					return idx
				case Computed:
					to := g.node(t.Name+"#"+rw.Rel, NRel, t.Name+"#"+rw.Rel)
					k := ERewrite
					if parent.Kind == NRel {
						k = EComputed
					}
					return []int{g.add(parent, to, k)}
				case TTU:
					ts, ok := relByName[rw.Tupleset]
					if !ok {
						if lenient {
							return nil
						}
						g.Invalid = "tupleset relation " + rw.Tupleset + " is not defined"
						return nil
					}
					if len(ts.Restr) == 0 {
						if lenient {
							return nil
						}
						g.Invalid = "tupleset relation " + rw.Tupleset + " has no type restrictions"
						return nil
					}
					var idx []int
					for _, x := range ts.Restr {
						if !hasRel(x.Type, rw.Rel) {
							if lenient {
								continue
							}
							g.Invalid = "parent type " + x.Type + " lacks relation " + rw.Rel
							return nil
						}
						to := g.node(x.Type+"#"+rw.Rel, NRel, x.Type+"#"+rw.Rel)
						idx = appendUnique(idx, g.upsert(parent, to, ETTU, t.Name+"#"+rw.Tupleset, x.Condition))
					}
					return idx
				default:
					op := g.node("op:"+t.Name+"#"+r.Name+"/"+path, NOp, opLabel[rw.Kind])
					op.Op = rw.Kind
					ei := g.add(parent, op, ERewrite)
					for ci, c := range rw.Ch {
						grp := parse(op, c, fmt.Sprintf("%s%d.", path, ci))
						op.Groups = append(op.Groups, grp)
					}
					return []int{ei}
				}
			}
			grp := parse(rn, r.Rw, "")
			rn.Groups = [][]int{grp}
		}
	}
	return g
}

func appendUnique(s []int, v int) []int {
	for _, x := range s {
		if x == v {
			return s
		}
	}
	return append(s, v)
}

// ---- semantics ---------------------------------------------------------------

// Mode selects operand-level semantics (the property) or the edge-wise
// semantics with restart-on-empty (defect model of known finding F10).
type Mode int

const (
	OperandWise Mode = iota
	EdgeWise
)

func setOf(keys ...string) map[string]bool {
	m := map[string]bool{}
	for _, k := range keys {
		m[k] = true
	}
	return m
}

func union(a, b map[string]bool) map[string]bool {
	o := map[string]bool{}
	for k := range a {
		o[k] = true
	}
	for k := range b {
		o[k] = true
	}
	return o
}

func inter(a, b map[string]bool) map[string]bool {
	o := map[string]bool{}
	for k := range a {
		if b[k] {
			o[k] = true
		}
	}
	return o
}

func eqSet(a, b map[string]bool) bool {
	if len(a) != len(b) {
		return false
	}
	for k := range a {
		if !b[k] {
			return false
		}
	}
	return true
}

// typesOf computes the type set of node n from the current sets of its
// targets, and the set of edge indices that are "live" (taking part).
func typesOf(n *GNode, mode Mode) (map[string]bool, []int) {
	all := make([]int, len(n.Edges))
	for i := range all {
		all[i] = i
	}
	switch {
	case n.Kind == NType:
		return setOf(n.Label), nil
	case n.Kind == NWild:
		return setOf(strings.TrimSuffix(n.Label, ":*")), nil
	case n.Kind == NRel || n.Op == Union:
		t := map[string]bool{}
		for _, e := range n.Edges {
			t = union(t, e.To.T)
		}
		return t, all
	case n.Op == Inter:
		if mode == OperandWise {
			var acc map[string]bool
			for gi, grp := range n.Groups {
				gt := map[string]bool{}
				for _, i := range grp {
					gt = union(gt, n.Edges[i].To.T)
				}
				if gi == 0 {
					acc = gt
				} else {
					acc = inter(acc, gt)
				}
			}
			if acc == nil {
				acc = map[string]bool{}
			}
			return acc, all
		}
		acc := map[string]bool{}
		start := 0
		for i, e := range n.Edges {
			if len(acc) == 0 {
				acc = union(nil, e.To.T)
				start = i
				continue
			}
			acc = inter(acc, e.To.T)
		}
		return acc, all[start:]
	case n.Op == Diff:
		if mode == OperandWise {
			t := map[string]bool{}
			if len(n.Groups) > 0 {
				for _, i := range n.Groups[0] {
					t = union(t, n.Edges[i].To.T)
				}
			}
			return t, all
		}
		t := map[string]bool{}
		for i, e := range n.Edges {
			if i != len(n.Edges)-1 {
				t = union(t, e.To.T)
			}
		}
		return t, all
	}
	return map[string]bool{}, all
}

// Analysis is the reference verdict and annotation of a graph.
type Analysis struct {
	WellFounded   bool
	Reasons       []string // clauses violated: a, b, c, d, e (with details)
	HasTupleCycle bool
}

func (a *Analysis) has(clause string) bool {
	for _, r := range a.Reasons {
		if strings.HasPrefix(r, clause+":") {
			return true
		}
	}
	return false
}

// Has reports whether a clause (a..e) is among the reasons.
func (a *Analysis) Has(clause string) bool { return a.has(clause) }

// sccs returns the strongly connected components of the subgraph given by
// succ over nodes 0..n-1 (Tarjan), as component index per node, plus the flag
// "cyclic" per component (size > 1 or self-loop).
func sccs(n int, succ func(v int) []int) (comp []int, cyclic []bool) {
	index := 0
	idx := make([]int, n)
	low := make([]int, n)
	on := make([]bool, n)
	comp = make([]int, n)
	for i := range idx {
		idx[i] = -1
		comp[i] = -1
	}
	var stack []int
	var strong func(v int)
	strong = func(v int) {
		idx[v] = index
		low[v] = index
		index++
		stack = append(stack, v)
		on[v] = true
		for _, w := range succ(v) {
			if idx[w] == -1 {
				strong(w)
				if low[w] < low[v] {
					low[v] = low[w]
				}
			} else if on[w] && idx[w] < low[v] {
				low[v] = idx[w]
			}
		}
		if low[v] == idx[v] {
			c := len(cyclic)
			size := 0
			for {
				w := stack[len(stack)-1]
				stack = stack[:len(stack)-1]
				on[w] = false
				comp[w] = c
				size++
				if w == v {
					break
				}
			}
			cyc := size > 1
			if !cyc {
				for _, w := range succ(v) {
					if w == v {
						cyc = true
					}
				}
			}
			cyclic = append(cyclic, cyc)
		}
	}
	for v := 0; v < n; v++ {
		if idx[v] == -1 {
			strong(v)
		}
	}
	return
}

// Analyse computes type sets, well-foundedness, weights and wildcard sets.
func (g *WG) Analyse(mode Mode) *Analysis {
	a := &Analysis{}
	if g.Invalid != "" {
		a.Reasons = append(a.Reasons, "c: "+g.Invalid)
		return a
	}
	n := len(g.Order)
	for _, nd := range g.Order {
		nd.T = map[string]bool{}
		nd.W = nil
		nd.Wild = nil
	}
	live := make([][]int, n)
	// least fixpoint of the type sets
	for it := 0; it < 4*n+8; it++ {
		changed := false
		for _, nd := range g.Order {
			t, lv := typesOf(nd, mode)
			live[nd.index] = lv
			if !eqSet(t, nd.T) {
				nd.T = t
				changed = true
			}
		}
		if !changed {
			break
		}
	}
	// (a) cycle made of rewrite/computed edges only; (b) intersection/exclusion on any cycle
	succKind := func(filter func(e *GEdge) bool) func(v int) []int {
		return func(v int) []int {
			var out []int
			for _, e := range g.Order[v].Edges {
				if filter(e) {
					out = append(out, e.To.index)
				}
			}
			return out
		}
	}
	comp, cyc := sccs(n, succKind(func(e *GEdge) bool { return e.Kind == ERewrite || e.Kind == EComputed }))
	for _, nd := range g.Order {
		if cyc[comp[nd.index]] {
			a.Reasons = append(a.Reasons, "a: rewrite-only cycle through "+nd.ID)
			break
		}
	}
	comp, cyc = sccs(n, succKind(func(e *GEdge) bool { return true }))
	for _, nd := range g.Order {
		if cyc[comp[nd.index]] {
			a.HasTupleCycle = true
			if nd.Kind == NOp && (nd.Op == Inter || nd.Op == Diff) {
				a.Reasons = append(a.Reasons, "b: "+nd.Label+" on a cycle: "+nd.ID)
			}
		}
	}
	for _, nd := range g.Order {
		if len(nd.T) == 0 {
			switch {
			case nd.Kind == NOp && nd.Op == Inter:
				a.Reasons = append(a.Reasons, "d: intersection without common type: "+nd.ID)
			case nd.Kind == NRel:
				a.Reasons = append(a.Reasons, "e: relation reaches no terminal type: "+nd.ID)
			case nd.Kind == NOp:
				// under the property's operand-wise semantics this implies an empty relation or
				// intersection below; it matters for the edge-wise defect model only
				a.Reasons = append(a.Reasons, "e: operator reaches no terminal type: "+nd.ID)
			}
		}
	}
	a.WellFounded = len(a.Reasons) == 0
	if !a.WellFounded {
		return a
	}
	// weights per type: longest hop count in the type-relevant subgraph
	allTypes := map[string]bool{}
	for _, nd := range g.Order {
		for t := range nd.T {
			allTypes[t] = true
		}
		nd.W = map[string]int{}
	}
	for t := range allTypes {
		relevant := func(v int) []*GEdge {
			nd := g.Order[v]
			if !nd.T[t] || nd.Kind == NType || nd.Kind == NWild {
				return nil
			}
			var out []*GEdge
			for _, i := range live[v] {
				if e := nd.Edges[i]; e.To.T[t] {
					out = append(out, e)
				}
			}
			return out
		}
		comp, cyc := sccs(n, func(v int) []int {
			var out []int
			for _, e := range relevant(v) {
				out = append(out, e.To.index)
			}
			return out
		})
		memo := map[int]int{}
		var w func(v int) int
		w = func(v int) int {
			if x, ok := memo[v]; ok {
				return x
			}
			if cyc[comp[v]] {
				memo[v] = Inf
				return Inf
			}
			best := 0
			for _, e := range relevant(v) {
				x := w(e.To.index)
				if x != Inf && (e.Kind == EDirect || e.Kind == ETTU) {
					x++
				}
				if x > best {
					best = x
				}
			}
			memo[v] = best
			return best
		}
		for _, nd := range g.Order {
			if nd.T[t] && nd.Kind != NType && nd.Kind != NWild {
				nd.W[t] = w(nd.index)
			}
		}
	}
	// wildcard sets: T:* reachable along edges
	for _, nd := range g.Order {
		nd.Wild = map[string]bool{}
	}
	for it := 0; it < n+2; it++ {
		changed := false
		for _, nd := range g.Order {
			if nd.Kind == NWild {
				k := strings.TrimSuffix(nd.Label, ":*")
				if !nd.Wild[k] {
					nd.Wild[k] = true
					changed = true
				}
			}
			for _, e := range nd.Edges {
				for k := range e.To.Wild {
					if !nd.Wild[k] {
						nd.Wild[k] = true
						changed = true
					}
				}
				if e.To.Kind == NWild {
					k := strings.TrimSuffix(e.To.Label, ":*")
					if !nd.Wild[k] {
						nd.Wild[k] = true
						changed = true
					}
				}
			}
		}
		if !changed {
			break
		}
	}
	return a
}

// EdgeWeights returns the expected weight map of an edge: the target's map,
// plus one on hops (Infinite stays), {T:1} into a type or wildcard node.
func EdgeWeights(e *GEdge) map[string]int {
	out := map[string]int{}
	if e.To.Kind == NType {
		out[e.To.Label] = 1
		return out
	}
	if e.To.Kind == NWild {
		out[strings.TrimSuffix(e.To.Label, ":*")] = 1
		return out
	}
	for k, v := range e.To.W {
		if v != Inf && (e.Kind == EDirect || e.Kind == ETTU) {
			v++
		}
		out[k] = v
	}
	return out
}

// FmtWeights renders a weight map canonically.
func FmtWeights(w map[string]int) string {
	keys := make([]string, 0, len(w))
	for k := range w {
		keys = append(keys, k)
	}
	sort.Strings(keys)
	parts := make([]string, len(keys))
	for i, k := range keys {
		if w[k] == Inf {
			parts[i] = k + ":inf"
		} else {
			parts[i] = fmt.Sprintf("%s:%d", k, w[k])
		}
	}
	return "{" + strings.Join(parts, ",") + "}"
}

// FmtSet renders a string set canonically.
func FmtSet(s map[string]bool) string {
	keys := make([]string, 0, len(s))
	for k := range s {
		keys = append(keys, k)
	}
	sort.Strings(keys)
	return "{" + strings.Join(keys, ",") + "}"
}
