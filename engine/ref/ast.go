// Package ref holds the reference models (oracles): a model AST that is
// independent of the implementation, conversion to the protobuf form the
// parser is specified to produce, a canonical semantic dump used for all
// comparisons, the DSL renderer with layout choice points, expressibility and
// normalisation rules for JSON->DSL, the module merge reference and the graph
// references.
package ref

import (
	"fmt"
	"sort"
	"strings"

	openfgav1 "github.com/openfga/api/proto/openfga/v1"
)

// Kind of a rewrite node.
type Kind int

const (
	This Kind = iota
	Computed
	TTU
	Union
	Inter
	Diff
)

// Rewrite is a rewrite tree. Union/Inter have any number of children (the
// DSL needs >= 2); Diff has exactly [base, subtract].
type Rewrite struct {
	Kind     Kind
	Rel      string // computed relation (Computed, TTU)
	Tupleset string // TTU
	Ch       []*Rewrite
	// NoParen renders a nested operator without its mandatory parentheses
	// (an injected structural defect; never set on valid models).
	NoParen bool `json:",omitempty"`
}

// Restriction is one entry of a direct assignment.
type Restriction struct {
	Type      string
	Wildcard  bool
	Relation  string
	Condition string
}

// Relation is one relation declaration.
type Relation struct {
	Name   string
	Rw     *Rewrite
	Restr  []Restriction // the [..] list of the relation (nil if none)
	Module string        // modular metadata (expected values)
	File   string
}

// TypeDef is one type declaration (or extension inside a module file).
type TypeDef struct {
	Name   string
	Rels   []Relation
	Extend bool
	Module string
	File   string
}

// Param is one condition parameter.
type Param struct {
	Name    string
	Type    string // bool string int uint double duration timestamp ipaddress | list map
	Generic string // element type of list/map
}

// Condition is one condition declaration.
type Condition struct {
	Name   string
	Params []Param
	Expr   string
	Module string
	File   string
}

// Model is a DSL document: a full model (Schema != "") or a module file
// (Module != "").
type Model struct {
	Schema string
	Module string
	Types  []TypeDef
	Conds  []Condition
	// Hdr selects injected header defects: 0 = the one header the model has,
	// 1 = model header then module header, 2 = module then model, 3 = none.
	Hdr int `json:",omitempty"`
}

// ---- constructors ---------------------------------------------------------

func T() *Rewrite                   { return &Rewrite{Kind: This} }
func C(rel string) *Rewrite         { return &Rewrite{Kind: Computed, Rel: rel} }
func TT(rel, ts string) *Rewrite    { return &Rewrite{Kind: TTU, Rel: rel, Tupleset: ts} }
func U(ch ...*Rewrite) *Rewrite     { return &Rewrite{Kind: Union, Ch: ch} }
func I(ch ...*Rewrite) *Rewrite     { return &Rewrite{Kind: Inter, Ch: ch} }
func D(base, sub *Rewrite) *Rewrite { return &Rewrite{Kind: Diff, Ch: []*Rewrite{base, sub}} }

// Clone deep-copies a rewrite tree.
func (r *Rewrite) Clone() *Rewrite {
	if r == nil {
		return nil
	}
	c := &Rewrite{Kind: r.Kind, Rel: r.Rel, Tupleset: r.Tupleset, NoParen: r.NoParen}
	for _, ch := range r.Ch {
		c.Ch = append(c.Ch, ch.Clone())
	}
	return c
}

// CountThis returns the number of direct assignments in the tree.
func (r *Rewrite) CountThis() int {
	if r == nil {
		return 0
	}
	if r.Kind == This {
		return 1
	}
	n := 0
	for _, c := range r.Ch {
		n += c.CountThis()
	}
	return n
}

// Leaves returns the number of leaves.
func (r *Rewrite) Leaves() int {
	if r == nil {
		return 0
	}
	if r.Kind <= TTU {
		return 1
	}
	n := 0
	for _, c := range r.Ch {
		n += c.Leaves()
	}
	return n
}

// String is a compact form, also used as canonical dump of a rewrite.
func (r *Rewrite) String() string {
	if r == nil {
		return "nil"
	}
	switch r.Kind {
	case This:
		return "this"
	case Computed:
		return r.Rel
	case TTU:
		return r.Rel + " from " + r.Tupleset
	}
	op := map[Kind]string{Union: "or", Inter: "and", Diff: "butnot"}[r.Kind]
	parts := make([]string, len(r.Ch))
	for i, c := range r.Ch {
		parts[i] = c.String()
	}
	if r.NoParen {
		op = "NOPAREN-" + op
	}
	return op + "(" + strings.Join(parts, ", ") + ")"
}

func (x Restriction) String() string {
	s := x.Type
	if x.Wildcard {
		s += ":*"
	}
	if x.Relation != "" {
		s += "#" + x.Relation
	}
	if x.Condition != "" {
		s += " with " + x.Condition
	}
	return s
}

// ---- to protobuf, as the DSL parser is specified to build it ----------------

// UsersetProto converts a rewrite tree.
func UsersetProto(r *Rewrite) *openfgav1.Userset {
	if r == nil {
		return nil
	}
	switch r.Kind {
	case This:
		return &openfgav1.Userset{Userset: &openfgav1.Userset_This{This: &openfgav1.DirectUserset{}}}
	case Computed:
		return &openfgav1.Userset{Userset: &openfgav1.Userset_ComputedUserset{ComputedUserset: &openfgav1.ObjectRelation{Relation: r.Rel}}}
	case TTU:
		return &openfgav1.Userset{Userset: &openfgav1.Userset_TupleToUserset{TupleToUserset: &openfgav1.TupleToUserset{
			Tupleset:        &openfgav1.ObjectRelation{Relation: r.Tupleset},
			ComputedUserset: &openfgav1.ObjectRelation{Relation: r.Rel},
		}}}
	case Union, Inter:
		ch := make([]*openfgav1.Userset, 0, len(r.Ch))
		for _, c := range r.Ch {
			ch = append(ch, UsersetProto(c))
		}
		if r.Kind == Union {
			return &openfgav1.Userset{Userset: &openfgav1.Userset_Union{Union: &openfgav1.Usersets{Child: ch}}}
		}
		return &openfgav1.Userset{Userset: &openfgav1.Userset_Intersection{Intersection: &openfgav1.Usersets{Child: ch}}}
	case Diff:
		return &openfgav1.Userset{Userset: &openfgav1.Userset_Difference{Difference: &openfgav1.Difference{
			Base: UsersetProto(r.Ch[0]), Subtract: UsersetProto(r.Ch[1])}}}
	}
	return nil
}

// RefProto converts a restriction.
func RefProto(x Restriction) *openfgav1.RelationReference {
	rr := &openfgav1.RelationReference{Type: x.Type, Condition: x.Condition}
	if x.Wildcard {
		rr.RelationOrWildcard = &openfgav1.RelationReference_Wildcard{Wildcard: &openfgav1.Wildcard{}}
	} else if x.Relation != "" {
		rr.RelationOrWildcard = &openfgav1.RelationReference_Relation{Relation: x.Relation}
	}
	return rr
}

var paramTypeNames = map[string]openfgav1.ConditionParamTypeRef_TypeName{
	"bool": openfgav1.ConditionParamTypeRef_TYPE_NAME_BOOL, "string": openfgav1.ConditionParamTypeRef_TYPE_NAME_STRING,
	"int": openfgav1.ConditionParamTypeRef_TYPE_NAME_INT, "uint": openfgav1.ConditionParamTypeRef_TYPE_NAME_UINT,
	"double": openfgav1.ConditionParamTypeRef_TYPE_NAME_DOUBLE, "duration": openfgav1.ConditionParamTypeRef_TYPE_NAME_DURATION,
	"timestamp": openfgav1.ConditionParamTypeRef_TYPE_NAME_TIMESTAMP, "ipaddress": openfgav1.ConditionParamTypeRef_TYPE_NAME_IPADDRESS,
	"list": openfgav1.ConditionParamTypeRef_TYPE_NAME_LIST, "map": openfgav1.ConditionParamTypeRef_TYPE_NAME_MAP,
	"any": openfgav1.ConditionParamTypeRef_TYPE_NAME_ANY,
}

// ScalarParamTypes and ContainerParamTypes are the DSL's parameter type words.
var ScalarParamTypes = []string{"bool", "string", "int", "uint", "double", "duration", "timestamp", "ipaddress"}
var ContainerParamTypes = []string{"list", "map"}

// CondProto converts a condition.
func CondProto(c Condition, modular bool) *openfgav1.Condition {
	pc := &openfgav1.Condition{Name: c.Name, Expression: c.Expr, Parameters: map[string]*openfgav1.ConditionParamTypeRef{}}
	for _, p := range c.Params {
		ref := &openfgav1.ConditionParamTypeRef{TypeName: paramTypeNames[p.Type]}
		if p.Generic != "" {
			ref.GenericTypes = []*openfgav1.ConditionParamTypeRef{{TypeName: paramTypeNames[p.Generic]}}
		}
		pc.Parameters[p.Name] = ref
	}
	if modular || c.Module != "" || c.File != "" {
		pc.Metadata = &openfgav1.ConditionMetadata{Module: c.Module}
		if c.File != "" {
			pc.Metadata.SourceInfo = &openfgav1.SourceInfo{File: c.File}
		}
	}
	return pc
}

// ToProto builds the protobuf model that the model m denotes. Relation
// metadata (restrictions) is attached to every relation, with an empty list
// for relations without direct assignment, as the DSL parser does.
func ToProto(m *Model) *openfgav1.AuthorizationModel {
	pm := &openfgav1.AuthorizationModel{SchemaVersion: m.Schema}
	modular := m.Module != ""
	for _, t := range m.Types {
		td := &openfgav1.TypeDefinition{Type: t.Name}
		mod := t.Module
		if modular && mod == "" {
			mod = m.Module
		}
		if len(t.Rels) > 0 || mod != "" || t.File != "" {
			td.Metadata = &openfgav1.Metadata{Module: mod}
			if t.File != "" {
				td.Metadata.SourceInfo = &openfgav1.SourceInfo{File: t.File}
			}
		}
		if len(t.Rels) > 0 {
			td.Relations = map[string]*openfgav1.Userset{}
			td.Metadata.Relations = map[string]*openfgav1.RelationMetadata{}
		}
		for _, r := range t.Rels {
			td.Relations[r.Name] = UsersetProto(r.Rw)
			rm := &openfgav1.RelationMetadata{DirectlyRelatedUserTypes: []*openfgav1.RelationReference{}}
			for _, x := range r.Restr {
				rm.DirectlyRelatedUserTypes = append(rm.DirectlyRelatedUserTypes, RefProto(x))
			}
			rmod := r.Module
			if modular && t.Extend && rmod == "" {
				rmod = m.Module
			}
			rm.Module = rmod
			if r.File != "" {
				rm.SourceInfo = &openfgav1.SourceInfo{File: r.File}
			}
			td.Metadata.Relations[r.Name] = rm
		}
		pm.TypeDefinitions = append(pm.TypeDefinitions, td)
	}
	if len(m.Conds) > 0 {
		pm.Conditions = map[string]*openfgav1.Condition{}
	}
	for _, c := range m.Conds {
		cc := c
		if modular && cc.Module == "" {
			cc.Module = m.Module
		}
		pm.Conditions[c.Name] = CondProto(cc, modular)
	}
	return pm
}

// ---- canonical semantic dump ----------------------------------------------

// DumpOpts selects what the dump distinguishes.
type DumpOpts struct {
	// Strict distinguishes absent from empty metadata and an absent from an
	// empty restriction list. Non-strict treats them alike.
	Strict bool
	// SortTypes lists type definitions by name instead of in model order.
	SortTypes bool
	// NoSource leaves module/file attribution out.
	NoSource bool
	// RawExpr keeps condition expressions byte for byte (default: trimmed).
	RawExpr bool
}

// DumpUserset renders a protobuf rewrite canonically (operand order kept).
func DumpUserset(u *openfgav1.Userset) string {
	if u == nil {
		return "nil"
	}
	switch x := u.GetUserset().(type) {
	case *openfgav1.Userset_This:
		return "this"
	case *openfgav1.Userset_ComputedUserset:
		if x.ComputedUserset.GetObject() != "" {
			return "computed(" + x.ComputedUserset.GetObject() + "|" + x.ComputedUserset.GetRelation() + ")"
		}
		return x.ComputedUserset.GetRelation()
	case *openfgav1.Userset_TupleToUserset:
		return x.TupleToUserset.GetComputedUserset().GetRelation() + " from " + x.TupleToUserset.GetTupleset().GetRelation()
	case *openfgav1.Userset_Union:
		return "or(" + dumpChildren(x.Union.GetChild()) + ")"
	case *openfgav1.Userset_Intersection:
		return "and(" + dumpChildren(x.Intersection.GetChild()) + ")"
	case *openfgav1.Userset_Difference:
		return "butnot(" + DumpUserset(x.Difference.GetBase()) + ", " + DumpUserset(x.Difference.GetSubtract()) + ")"
	}
	return "unset"
}

func dumpChildren(ch []*openfgav1.Userset) string {
	parts := make([]string, len(ch))
	for i, c := range ch {
		parts[i] = DumpUserset(c)
	}
	return strings.Join(parts, ", ")
}

// DumpRef renders a relation reference.
func DumpRef(r *openfgav1.RelationReference) string {
	s := r.GetType()
	if r.GetWildcard() != nil {
		s += ":*"
	}
	if _, ok := r.GetRelationOrWildcard().(*openfgav1.RelationReference_Relation); ok {
		s += "#" + r.GetRelation()
	}
	if r.GetCondition() != "" {
		s += " with " + r.GetCondition()
	}
	return s
}

func dumpParam(p *openfgav1.ConditionParamTypeRef) string {
	if p == nil {
		return "nil"
	}
	s := strings.ToLower(strings.TrimPrefix(p.GetTypeName().String(), "TYPE_NAME_"))
	if len(p.GetGenericTypes()) > 0 {
		parts := []string{}
		for _, g := range p.GetGenericTypes() {
			parts = append(parts, dumpParam(g))
		}
		s += "<" + strings.Join(parts, ",") + ">"
	}
	return s
}

// Dump renders a protobuf model canonically. Two models are "equal" for a
// check exactly when their dumps (under that check's options) are equal.
func Dump(m *openfgav1.AuthorizationModel, o DumpOpts) string {
	if m == nil {
		return "<nil model>"
	}
	var sb strings.Builder
	fmt.Fprintf(&sb, "schema %q\n", m.GetSchemaVersion())
	if m.GetId() != "" {
		fmt.Fprintf(&sb, "id %q\n", m.GetId())
	}
	tds := append([]*openfgav1.TypeDefinition{}, m.GetTypeDefinitions()...)
	if o.SortTypes {
		sort.SliceStable(tds, func(i, j int) bool { return tds[i].GetType() < tds[j].GetType() })
	}
	for _, td := range tds {
		fmt.Fprintf(&sb, "type %s", td.GetType())
		if !o.NoSource {
			if md := td.GetMetadata(); md != nil {
				if md.GetModule() != "" || md.GetSourceInfo().GetFile() != "" {
					fmt.Fprintf(&sb, " module=%q file=%q", md.GetModule(), md.GetSourceInfo().GetFile())
				}
			}
		}
		if o.Strict {
			switch {
			case td.GetMetadata() == nil:
				sb.WriteString(" meta=absent")
			case td.GetMetadata().GetRelations() == nil:
				sb.WriteString(" meta=norelmap")
			}
		}
		sb.WriteString("\n")
		names := make([]string, 0, len(td.GetRelations()))
		for n := range td.GetRelations() {
			names = append(names, n)
		}
		sort.Strings(names)
		for _, n := range names {
			fmt.Fprintf(&sb, "  rel %s = %s\n", n, DumpUserset(td.GetRelations()[n]))
			rm, ok := td.GetMetadata().GetRelations()[n]
			if !ok {
				if o.Strict {
					sb.WriteString("    nometa\n")
				}
				continue
			}
			refs := []string{}
			for _, r := range rm.GetDirectlyRelatedUserTypes() {
				refs = append(refs, DumpRef(r))
			}
			if len(refs) > 0 || o.Strict {
				fmt.Fprintf(&sb, "    restr [%s]\n", strings.Join(refs, ", "))
			}
			if !o.NoSource && (rm.GetModule() != "" || rm.GetSourceInfo().GetFile() != "") {
				fmt.Fprintf(&sb, "    module=%q file=%q\n", rm.GetModule(), rm.GetSourceInfo().GetFile())
			}
		}
		// metadata entries without a relation
		extra := []string{}
		for n := range td.GetMetadata().GetRelations() {
			if _, ok := td.GetRelations()[n]; !ok {
				extra = append(extra, n)
			}
		}
		sort.Strings(extra)
		for _, n := range extra {
			fmt.Fprintf(&sb, "  orphan-metadata %s\n", n)
		}
	}
	cn := make([]string, 0, len(m.GetConditions()))
	for n := range m.GetConditions() {
		cn = append(cn, n)
	}
	sort.Strings(cn)
	for _, n := range cn {
		c := m.GetConditions()[n]
		pn := make([]string, 0, len(c.GetParameters()))
		for p := range c.GetParameters() {
			pn = append(pn, p)
		}
		sort.Strings(pn)
		ps := []string{}
		for _, p := range pn {
			ps = append(ps, p+": "+dumpParam(c.GetParameters()[p]))
		}
		expr := c.GetExpression()
		if !o.RawExpr {
			expr = strings.TrimSpace(expr)
		}
		fmt.Fprintf(&sb, "cond %s", n)
		if c.GetName() != n {
			fmt.Fprintf(&sb, " (name field %q)", c.GetName())
		}
		fmt.Fprintf(&sb, "(%s) {%q}", strings.Join(ps, ", "), expr)
		if !o.NoSource && (c.GetMetadata().GetModule() != "" || c.GetMetadata().GetSourceInfo().GetFile() != "") {
			fmt.Fprintf(&sb, " module=%q file=%q", c.GetMetadata().GetModule(), c.GetMetadata().GetSourceInfo().GetFile())
		}
		if o.Strict && c.GetMetadata() == nil {
			sb.WriteString(" meta=absent")
		}
		sb.WriteString("\n")
	}
	return sb.String()
}

// Rename returns a deep copy of m with every type, relation and condition name mapped through f (kind is "type",
// "relation" or "condition"). The model's structure is unchanged, so every structural oracle applies to the copy as it does to m.
func Rename(m *Model, f func(kind, name string) string) *Model {
	var rw func(r *Rewrite) *Rewrite
	rw = func(r *Rewrite) *Rewrite {
		if r == nil {
			return nil
		}
		c := &Rewrite{Kind: r.Kind, NoParen: r.NoParen}
		if r.Rel != "" {
			c.Rel = f("relation", r.Rel)
		}
		if r.Tupleset != "" {
			c.Tupleset = f("relation", r.Tupleset)
		}
		for _, ch := range r.Ch {
			c.Ch = append(c.Ch, rw(ch))
		}
		return c
	}
	out := &Model{Schema: m.Schema, Module: m.Module, Hdr: m.Hdr}
	for _, t := range m.Types {
		nt := TypeDef{Name: f("type", t.Name), Extend: t.Extend, Module: t.Module, File: t.File}
		for _, r := range t.Rels {
			nr := Relation{Name: f("relation", r.Name), Rw: rw(r.Rw), Module: r.Module, File: r.File}
			for _, x := range r.Restr {
				nx := Restriction{Type: f("type", x.Type), Wildcard: x.Wildcard}
				if x.Relation != "" {
					nx.Relation = f("relation", x.Relation)
				}
				if x.Condition != "" {
					nx.Condition = f("condition", x.Condition)
				}
				nr.Restr = append(nr.Restr, nx)
			}
			if r.Restr != nil && nr.Restr == nil {
				nr.Restr = []Restriction{}
			}
			nt.Rels = append(nt.Rels, nr)
		}
		out.Types = append(out.Types, nt)
	}
	for _, c := range m.Conds {
		out.Conds = append(out.Conds, Condition{Name: f("condition", c.Name), Params: append([]Param{}, c.Params...), Expr: c.Expr, Module: c.Module, File: c.File})
	}
	return out
}
