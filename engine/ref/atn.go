package ref

import (
	"fmt"
	"strconv"
	"strings"
)

// Own deserialiser for ANTLR's serialised ATN (format version 4), independent
// of the antlr runtime.

type ATNState struct {
	Type       int // 0 invalid, 1 basic, 2 rule start, 3 block start, 4 plus block start, 5 star block start, 6 token start, 7 rule stop, 8 block end, 9 star loop back, 10 star loop entry, 11 plus loop back, 12 loop end
	Rule       int
	Extra      int // loop back state (loop end) or end state (block starts), -1 otherwise
	NonGreedy  bool
	Precedence bool
	Decision   int // decision number, -1 if none
	Trans      []ATNTrans
}

type ATNTrans struct {
	Type       int // 1 epsilon, 2 range, 3 rule, 4 predicate, 5 atom, 6 action, 7 set, 8 not set, 9 wildcard, 10 precedence
	Target     int
	A1, A2, A3 int
}

type ATNSet struct {
	EOF       bool
	Intervals [][2]int
}

type ATN struct {
	Version      int
	GrammarType  int // 0 lexer, 1 parser
	MaxTokenType int
	States       []ATNState
	RuleStart    []int
	RuleToken    []int // lexer: token type per rule
	Modes        []int
	Sets         []ATNSet
	Decisions    []int
	Actions      [][3]int
}

// DeserializeATN decodes a serialised ATN.
func DeserializeATN(data []int) (*ATN, error) {
	p := 0
	next := func() (int, error) {
		if p >= len(data) {
			return 0, fmt.Errorf("serialised ATN truncated at %d", p)
		}
		v := data[p]
		p++
		return v, nil
	}
	must := func() int {
		v, err := next()
		if err != nil {
			panic(err)
		}
		return v
	}
	a := &ATN{}
	var err error
	func() {
		defer func() {
			if r := recover(); r != nil {
				err = fmt.Errorf("%v", r)
			}
		}()
		a.Version = must()
		if a.Version != 4 {
			panic(fmt.Sprintf("unsupported ATN version %d", a.Version))
		}
		a.GrammarType = must()
		a.MaxTokenType = must()
		n := must()
		for i := 0; i < n; i++ {
			st := ATNState{Type: must(), Extra: -1, Decision: -1}
			if st.Type == 0 {
				a.States = append(a.States, st)
				continue
			}
			st.Rule = must()
			if st.Type == 12 || st.Type == 3 || st.Type == 4 || st.Type == 5 {
				st.Extra = must()
			}
			a.States = append(a.States, st)
		}
		for i, n := 0, must(); i < n; i++ {
			a.States[must()].NonGreedy = true
		}
		for i, n := 0, must(); i < n; i++ {
			a.States[must()].Precedence = true
		}
		for i, n := 0, must(); i < n; i++ {
			a.RuleStart = append(a.RuleStart, must())
			if a.GrammarType == 0 {
				a.RuleToken = append(a.RuleToken, must())
			}
		}
		for i, n := 0, must(); i < n; i++ {
			a.Modes = append(a.Modes, must())
		}
		for i, n := 0, must(); i < n; i++ {
			var s ATNSet
			k := must()
			s.EOF = must() != 0
			for j := 0; j < k; j++ {
				s.Intervals = append(s.Intervals, [2]int{must(), must()})
			}
			a.Sets = append(a.Sets, s)
		}
		for i, n := 0, must(); i < n; i++ {
			src, trg, typ := must(), must(), must()
			t := ATNTrans{Type: typ, Target: trg, A1: must(), A2: must(), A3: must()}
			a.States[src].Trans = append(a.States[src].Trans, t)
		}
		for i, n := 0, must(); i < n; i++ {
			s := must()
			a.Decisions = append(a.Decisions, s)
			a.States[s].Decision = i
		}
		if a.GrammarType == 0 {
			for i, n := 0, must(); i < n; i++ {
				a.Actions = append(a.Actions, [3]int{must(), must(), must()})
			}
		}
		if p != len(data) {
			panic(fmt.Sprintf("%d trailing values after the ATN", len(data)-p))
		}
	}()
	return a, err
}

// ParseIntList parses "1, 2, 3" style lists (any separators that are not digits or '-').
func ParseIntList(s string) ([]int, error) {
	var out []int
	cur := ""
	flush := func() error {
		if cur == "" {
			return nil
		}
		v, err := strconv.Atoi(cur)
		if err != nil {
			return err
		}
		out = append(out, v)
		cur = ""
		return nil
	}
	for _, r := range s {
		if (r >= '0' && r <= '9') || r == '-' {
			cur += string(r)
			continue
		}
		if err := flush(); err != nil {
			return nil, err
		}
	}
	if err := flush(); err != nil {
		return nil, err
	}
	return out, nil
}

// ParseJavaStringConcat decodes `"..." + "..."` Java string literals into the
// sequence of UTF-16 code units.
func ParseJavaStringConcat(src string) ([]int, error) {
	var out []int
	i := 0
	for i < len(src) {
		if src[i] != '"' {
			i++
			continue
		}
		i++
		for i < len(src) && src[i] != '"' {
			c := src[i]
			if c != '\\' {
				// literal character (source files are UTF-8; serialised ATNs only use ASCII literally)
				r, size := decodeRune(src[i:])
				out = append(out, int(r))
				i += size
				continue
			}
			i++
			if i >= len(src) {
				return nil, fmt.Errorf("dangling backslash")
			}
			switch src[i] {
			case 'u':
				for i < len(src) && src[i] == 'u' {
					i++
				}
				if i+4 > len(src) {
					return nil, fmt.Errorf("short unicode escape")
				}
				v, err := strconv.ParseInt(src[i:i+4], 16, 32)
				if err != nil {
					return nil, err
				}
				out = append(out, int(v))
				i += 4
			case 'b':
				out = append(out, 8)
				i++
			case 't':
				out = append(out, 9)
				i++
			case 'n':
				out = append(out, 10)
				i++
			case 'f':
				out = append(out, 12)
				i++
			case 'r':
				out = append(out, 13)
				i++
			case '"', '\'', '\\':
				out = append(out, int(src[i]))
				i++
			default:
				if src[i] >= '0' && src[i] <= '7' {
					j := i
					for j < len(src) && j < i+3 && src[j] >= '0' && src[j] <= '7' {
						j++
					}
					v, _ := strconv.ParseInt(src[i:j], 8, 32)
					out = append(out, int(v))
					i = j
				} else {
					return nil, fmt.Errorf("unknown escape \\%c", src[i])
				}
			}
		}
		i++ // closing quote
	}
	return out, nil
}

func decodeRune(s string) (rune, int) {
	for i, r := range s {
		if i == 0 {
			n := len(string(r))
			return r, n
		}
	}
	return 0, 1
}

// Interp is the content of an ANTLR .interp file.
type Interp struct {
	Literal, Symbolic, Rules, Channels, Modes []string
	ATN                                       []int
}

// ParseInterp reads a .interp file.
func ParseInterp(text string) (*Interp, error) {
	it := &Interp{}
	var cur *[]string
	lines := strings.Split(text, "\n")
	for i := 0; i < len(lines); i++ {
		l := strings.TrimRight(lines[i], "\r")
		switch l {
		case "token literal names:":
			cur = &it.Literal
			continue
		case "token symbolic names:":
			cur = &it.Symbolic
			continue
		case "rule names:":
			cur = &it.Rules
			continue
		case "channel names:":
			cur = &it.Channels
			continue
		case "mode names:":
			cur = &it.Modes
			continue
		case "atn:":
			cur = nil
			if i+1 < len(lines) {
				v, err := ParseIntList(lines[i+1])
				if err != nil {
					return nil, err
				}
				it.ATN = v
			}
			return it, nil
		}
		if l == "" {
			cur = nil
			continue
		}
		if cur != nil {
			*cur = append(*cur, l)
		}
	}
	return it, nil
}
