package ref

import (
	"fmt"
	"strings"
	"unicode/utf8"
)

// A reader for the subset of ANTLR's .g4 syntax that the two grammar files of
// the repository use, giving a grammar model that is interpreted directly:
// a reference lexer (longest match, first rule wins, modes, commands) and a
// reference recogniser with ANTLR's ambiguity resolution (lowest viable
// alternative, greedy loops) that also builds the derivation tree.

// ElemKind of a grammar element.
type ElemKind int

const (
	ETokenRef ElemKind = iota // parser: token reference; lexer: reference to another lexer rule
	ERuleRef                  // parser rule reference
	ELiteral                  // lexer: literal string
	ERange                    // lexer: 'a'..'z'
	ECharSet                  // lexer: [...] (not used by the repository's grammars) or ~(...) over chars
	EAny                      // '.'
	EBlock                    // ( alt | alt )
	ENot                      // ~x  (x is a token ref / literal / block of those)
	EEOF
)

type Elem struct {
	Kind      ElemKind
	Name      string // referenced rule / token
	Lit       string // literal text
	Lo, Hi    rune   // range
	Alts      []*Alt // block
	Sub       *Elem  // negated element
	Suffix    byte   // 0, '?', '*', '+'
	NonGreedy bool
	id        int
}

type Alt struct {
	Elems []*Elem
}

type Rule struct {
	Name     string
	Fragment bool
	Alts     []*Alt
	Mode     string   // lexer rules
	Commands []string // lexer commands: "type(X)", "channel(HIDDEN)", "pushMode(M)", "popMode", "skip", "more"
	Index    int
}

type Grammar struct {
	Lexer  bool
	Rules  []*Rule
	ByName map[string]*Rule
	Tokens []string // tokens{} block
	Modes  []string
	nelem  int
}

// ---- tokenizer ---------------------------------------------------------------------

type g4tok struct {
	kind string // id, lit, op, set
	text string
}

func g4Tokenize(src string) ([]g4tok, error) {
	var out []g4tok
	i := 0
	for i < len(src) {
		c := src[i]
		switch {
		case c == ' ' || c == '\t' || c == '\n' || c == '\r':
			i++
		case strings.HasPrefix(src[i:], "//"):
			for i < len(src) && src[i] != '\n' {
				i++
			}
		case strings.HasPrefix(src[i:], "/*"):
			j := strings.Index(src[i+2:], "*/")
			if j < 0 {
				return nil, fmt.Errorf("unterminated comment")
			}
			i += j + 4
		case c == '\'':
			j := i + 1
			var sb strings.Builder
			for j < len(src) && src[j] != '\'' {
				if src[j] == '\\' {
					j++
					if j >= len(src) {
						return nil, fmt.Errorf("dangling escape")
					}
					switch src[j] {
					case 'n':
						sb.WriteByte('\n')
					case 'r':
						sb.WriteByte('\r')
					case 't':
						sb.WriteByte('\t')
					case 'f':
						sb.WriteByte('\f')
					case 'b':
						sb.WriteByte('\b')
					case 'u':
						if j+4 >= len(src) {
							return nil, fmt.Errorf("short unicode escape")
						}
						var v rune
						fmt.Sscanf(src[j+1:j+5], "%x", &v)
						sb.WriteRune(v)
						j += 4
					default:
						sb.WriteByte(src[j])
					}
					j++
					continue
				}
				r, size := utf8.DecodeRuneInString(src[j:])
				sb.WriteRune(r)
				j += size
			}
			if j >= len(src) {
				return nil, fmt.Errorf("unterminated literal")
			}
			out = append(out, g4tok{"lit", sb.String()})
			i = j + 1
		case c == '[':
			j := strings.IndexByte(src[i:], ']')
			if j < 0 {
				return nil, fmt.Errorf("unterminated set")
			}
			out = append(out, g4tok{"set", src[i+1 : i+j]})
			i += j + 1
		case (c >= 'a' && c <= 'z') || (c >= 'A' && c <= 'Z') || c == '_':
			j := i
			for j < len(src) && ((src[j] >= 'a' && src[j] <= 'z') || (src[j] >= 'A' && src[j] <= 'Z') || (src[j] >= '0' && src[j] <= '9') || src[j] == '_') {
				j++
			}
			out = append(out, g4tok{"id", src[i:j]})
			i = j
		case strings.HasPrefix(src[i:], "->"):
			out = append(out, g4tok{"op", "->"})
			i += 2
		case strings.HasPrefix(src[i:], ".."):
			out = append(out, g4tok{"op", ".."})
			i += 2
		case strings.ContainsRune(":;|()?*+~.,={}", rune(c)):
			out = append(out, g4tok{"op", string(c)})
			i++
		default:
			return nil, fmt.Errorf("unexpected character %q in grammar", c)
		}
	}
	return out, nil
}

type g4parser struct {
	toks []g4tok
	p    int
	g    *Grammar
}

func (p *g4parser) peek() g4tok {
	if p.p < len(p.toks) {
		return p.toks[p.p]
	}
	return g4tok{"eof", ""}
}
func (p *g4parser) next() g4tok { t := p.peek(); p.p++; return t }
func (p *g4parser) isOp(s string) bool {
	t := p.peek()
	return t.kind == "op" && t.text == s
}
func (p *g4parser) expectOp(s string) error {
	if !p.isOp(s) {
		return fmt.Errorf("grammar: expected %q, found %q (token %d)", s, p.peek().text, p.p)
	}
	p.p++
	return nil
}

// ParseG4 reads a grammar file.
func ParseG4(src string) (*Grammar, error) {
	toks, err := g4Tokenize(src)
	if err != nil {
		return nil, err
	}
	p := &g4parser{toks: toks, g: &Grammar{ByName: map[string]*Rule{}}}
	g := p.g
	// header: (lexer|parser) grammar Name ;
	t := p.next()
	if t.text == "lexer" {
		g.Lexer = true
	} else if t.text != "parser" {
		return nil, fmt.Errorf("grammar: expected 'lexer grammar' or 'parser grammar'")
	}
	p.next() // grammar
	p.next() // name
	if err := p.expectOp(";"); err != nil {
		return nil, err
	}
	mode := "DEFAULT_MODE"
	g.Modes = []string{mode}
	for p.peek().kind != "eof" {
		t := p.peek()
		switch {
		case t.kind == "id" && t.text == "options":
			p.next()
			for !p.isOp("}") {
				p.next()
			}
			p.next()
		case t.kind == "id" && t.text == "tokens":
			p.next()
			if err := p.expectOp("{"); err != nil {
				return nil, err
			}
			for !p.isOp("}") {
				if x := p.next(); x.kind == "id" {
					g.Tokens = append(g.Tokens, x.text)
				}
			}
			p.next()
		case t.kind == "id" && t.text == "mode":
			p.next()
			mode = p.next().text
			g.Modes = append(g.Modes, mode)
			if err := p.expectOp(";"); err != nil {
				return nil, err
			}
		default:
			r := &Rule{Mode: mode, Index: len(g.Rules)}
			if t.kind == "id" && t.text == "fragment" {
				p.next()
				r.Fragment = true
			}
			n := p.next()
			if n.kind != "id" {
				return nil, fmt.Errorf("grammar: rule name expected, found %q", n.text)
			}
			r.Name = n.text
			if err := p.expectOp(":"); err != nil {
				return nil, err
			}
			alts, err := p.alternatives()
			if err != nil {
				return nil, fmt.Errorf("rule %s: %v", r.Name, err)
			}
			r.Alts = alts
			if p.isOp("->") {
				p.next()
				for {
					c := p.next().text
					if p.isOp("(") {
						p.next()
						c += "(" + p.next().text + ")"
						if err := p.expectOp(")"); err != nil {
							return nil, err
						}
					}
					r.Commands = append(r.Commands, c)
					if p.isOp(",") {
						p.next()
						continue
					}
					break
				}
			}
			if err := p.expectOp(";"); err != nil {
				return nil, fmt.Errorf("rule %s: %v", r.Name, err)
			}
			g.Rules = append(g.Rules, r)
			g.ByName[r.Name] = r
		}
	}
	return g, nil
}

func (p *g4parser) alternatives() ([]*Alt, error) {
	var alts []*Alt
	for {
		a := &Alt{}
		for {
			t := p.peek()
			if t.kind == "eof" || (t.kind == "op" && (t.text == "|" || t.text == ")" || t.text == ";" || t.text == "->")) {
				break
			}
			e, err := p.element()
			if err != nil {
				return nil, err
			}
			a.Elems = append(a.Elems, e)
		}
		alts = append(alts, a)
		if p.isOp("|") {
			p.next()
			continue
		}
		return alts, nil
	}
}

func (p *g4parser) element() (*Elem, error) {
	// label= prefix
	if p.peek().kind == "id" && p.p+1 < len(p.toks) && p.toks[p.p+1].kind == "op" && p.toks[p.p+1].text == "=" {
		p.p += 2
	}
	e, err := p.atom()
	if err != nil {
		return nil, err
	}
	for {
		t := p.peek()
		if t.kind == "op" && (t.text == "?" || t.text == "*" || t.text == "+") {
			p.next()
			if e.Suffix != 0 {
				// nested suffix: wrap
				e = &Elem{Kind: EBlock, Alts: []*Alt{{Elems: []*Elem{e}}}}
				p.g.nelem++
				e.id = p.g.nelem
			}
			e.Suffix = t.text[0]
			if p.isOp("?") {
				p.next()
				e.NonGreedy = true
			}
			continue
		}
		break
	}
	return e, nil
}

func (p *g4parser) newElem(k ElemKind) *Elem {
	p.g.nelem++
	return &Elem{Kind: k, id: p.g.nelem}
}

func (p *g4parser) atom() (*Elem, error) {
	t := p.next()
	switch {
	case t.kind == "op" && t.text == "(":
		alts, err := p.alternatives()
		if err != nil {
			return nil, err
		}
		if err := p.expectOp(")"); err != nil {
			return nil, err
		}
		e := p.newElem(EBlock)
		e.Alts = alts
		return e, nil
	case t.kind == "op" && t.text == "~":
		sub, err := p.atom()
		if err != nil {
			return nil, err
		}
		e := p.newElem(ENot)
		e.Sub = sub
		return e, nil
	case t.kind == "op" && t.text == ".":
		return p.newElem(EAny), nil
	case t.kind == "lit":
		if p.isOp("..") {
			p.next()
			hi := p.next()
			if hi.kind != "lit" {
				return nil, fmt.Errorf("range end expected")
			}
			e := p.newElem(ERange)
			e.Lo, _ = utf8.DecodeRuneInString(t.text)
			e.Hi, _ = utf8.DecodeRuneInString(hi.text)
			return e, nil
		}
		e := p.newElem(ELiteral)
		e.Lit = t.text
		return e, nil
	case t.kind == "set":
		e := p.newElem(ECharSet)
		e.Lit = t.text
		return e, nil
	case t.kind == "id":
		if t.text == "EOF" {
			return p.newElem(EEOF), nil
		}
		if !p.g.Lexer && t.text[0] >= 'a' && t.text[0] <= 'z' {
			e := p.newElem(ERuleRef)
			e.Name = t.text
			return e, nil
		}
		e := p.newElem(ETokenRef)
		e.Name = t.text
		return e, nil
	}
	return nil, fmt.Errorf("unexpected %q in rule body", t.text)
}

// ---- reference lexer ---------------------------------------------------------------------

// LexToken is one token of the reference lexer.
type LexToken struct {
	Type    string // symbolic name after type(X) re-typing
	Text    string
	Channel string // "" default, else HIDDEN
	Start   int    // rune offset
}

// RefLexer interprets a lexer grammar.
type RefLexer struct {
	G     *Grammar
	memo  map[[3]int]map[int]bool
	in    []rune
	reach int // furthest position consumed by any partial match (viable prefix), for error recovery
}

func NewRefLexer(g *Grammar) *RefLexer { return &RefLexer{G: g} }

// ends returns the set of end positions of element sequences.
func (l *RefLexer) seqEnds(elems []*Elem, idx, pos int) map[int]bool {
	if idx == len(elems) {
		return map[int]bool{pos: true}
	}
	out := map[int]bool{}
	for mid := range l.elemEnds(elems[idx], pos) {
		for e := range l.seqEnds(elems, idx+1, mid) {
			out[e] = true
		}
	}
	return out
}

func (l *RefLexer) altsEnds(alts []*Alt, pos int) map[int]bool {
	out := map[int]bool{}
	for _, a := range alts {
		for e := range l.seqEnds(a.Elems, 0, pos) {
			out[e] = true
		}
	}
	return out
}

// matchOne: end positions of one occurrence of e (ignoring its suffix).
func (l *RefLexer) touch(p int) {
	if p > l.reach {
		l.reach = p
	}
}

func (l *RefLexer) matchOne(e *Elem, pos int) map[int]bool {
	out := map[int]bool{}
	switch e.Kind {
	case ELiteral:
		rs := []rune(e.Lit)
		for i, r := range rs {
			if pos+i >= len(l.in) || l.in[pos+i] != r {
				return out
			}
			l.touch(pos + i + 1)
		}
		out[pos+len(rs)] = true
	case ERange:
		if pos < len(l.in) && l.in[pos] >= e.Lo && l.in[pos] <= e.Hi {
			l.touch(pos + 1)
			out[pos+1] = true
		}
	case EAny:
		if pos < len(l.in) {
			l.touch(pos + 1)
			out[pos+1] = true
		}
	case ENot:
		if pos < len(l.in) && !l.charIn(e.Sub, l.in[pos]) {
			l.touch(pos + 1)
			out[pos+1] = true
		}
	case EBlock:
		return l.altsEnds(e.Alts, pos)
	case ETokenRef:
		r := l.G.ByName[e.Name]
		if r == nil {
			return out
		}
		return l.ruleEnds(r, pos)
	}
	return out
}

// charIn: does the single-character element e (literal, range, block of those) contain r?
func (l *RefLexer) charIn(e *Elem, r rune) bool {
	switch e.Kind {
	case ELiteral:
		rs := []rune(e.Lit)
		return len(rs) == 1 && rs[0] == r
	case ERange:
		return r >= e.Lo && r <= e.Hi
	case EBlock:
		for _, a := range e.Alts {
			if len(a.Elems) == 1 && l.charIn(a.Elems[0], r) {
				return true
			}
		}
	case ETokenRef:
		if rr := l.G.ByName[e.Name]; rr != nil {
			for _, a := range rr.Alts {
				if len(a.Elems) == 1 && l.charIn(a.Elems[0], r) {
					return true
				}
			}
		}
	}
	return false
}

func (l *RefLexer) ruleEnds(r *Rule, pos int) map[int]bool {
	key := [3]int{-1 - r.Index, pos, 0}
	if v, ok := l.memo[key]; ok {
		return v
	}
	l.memo[key] = map[int]bool{} // in progress (right recursion always consumes first)
	v := l.altsEnds(r.Alts, pos)
	l.memo[key] = v
	return v
}

func (l *RefLexer) elemEnds(e *Elem, pos int) map[int]bool {
	key := [3]int{e.id, pos, 1}
	if v, ok := l.memo[key]; ok {
		return v
	}
	out := map[int]bool{}
	switch e.Suffix {
	case 0:
		out = l.matchOne(e, pos)
	case '?':
		out[pos] = true
		for x := range l.matchOne(e, pos) {
			out[x] = true
		}
	case '*', '+':
		// closure
		frontier := map[int]bool{pos: true}
		seen := map[int]bool{}
		if e.Suffix == '*' {
			out[pos] = true
		}
		for len(frontier) > 0 {
			next := map[int]bool{}
			for p := range frontier {
				for x := range l.matchOne(e, p) {
					if x > p && !seen[x] {
						seen[x] = true
						out[x] = true
						next[x] = true
					}
				}
			}
			frontier = next
		}
	}
	l.memo[key] = out
	return out
}

// hasNonGreedy tells whether a rule uses a non-greedy loop (the reference
// lexer implements longest match only and refuses to judge such tokens).
func hasNonGreedy(g *Grammar, r *Rule, seen map[string]bool) bool {
	if seen[r.Name] {
		return false
	}
	seen[r.Name] = true
	var walk func(alts []*Alt) bool
	walk = func(alts []*Alt) bool {
		for _, a := range alts {
			for _, e := range a.Elems {
				if e.NonGreedy {
					return true
				}
				if e.Kind == EBlock && walk(e.Alts) {
					return true
				}
				if e.Kind == ETokenRef {
					if rr := g.ByName[e.Name]; rr != nil && hasNonGreedy(g, rr, seen) {
						return true
					}
				}
			}
		}
		return false
	}
	return walk(r.Alts)
}

// Lex tokenises text. errs lists the rune offsets of token recognition errors.
// undecided is set when the winning rule involves a non-greedy loop.
func (l *RefLexer) Lex(text string) (toks []LexToken, errs []int, undecided bool) {
	l.in = []rune(text)
	l.memo = map[[3]int]map[int]bool{}
	modes := []string{"DEFAULT_MODE"}
	pos := 0
	for pos < len(l.in) {
		mode := modes[len(modes)-1]
		best, bestEnd := (*Rule)(nil), -1
		for _, r := range l.G.Rules {
			if r.Fragment || r.Mode != mode {
				continue
			}
			end := -1
			for e := range l.ruleEnds(r, pos) {
				if e > end {
					end = e
				}
			}
			if end > pos && end > bestEnd {
				best, bestEnd = r, end
			}
		}
		if best == nil {
			// ANTLR's lexer has consumed every character for which some rule was still alive; recovery then
			// drops the character on which the last configuration died as well
			errs = append(errs, pos)
			l.memo = map[[3]int]map[int]bool{}
			l.reach = pos
			for _, r := range l.G.Rules {
				if !r.Fragment && r.Mode == mode {
					l.ruleEnds(r, pos)
				}
			}
			l.memo = map[[3]int]map[int]bool{}
			pos = l.reach
			if pos < len(l.in) {
				pos++
			}
			continue
		}
		if hasNonGreedy(l.G, best, map[string]bool{}) {
			return toks, errs, true
		}
		tok := LexToken{Type: best.Name, Text: string(l.in[pos:bestEnd]), Start: pos}
		skip := false
		for _, c := range best.Commands {
			switch {
			case strings.HasPrefix(c, "type("):
				tok.Type = c[5 : len(c)-1]
			case strings.HasPrefix(c, "channel("):
				tok.Channel = c[8 : len(c)-1]
			case strings.HasPrefix(c, "pushMode("):
				modes = append(modes, c[9:len(c)-1])
			case c == "popMode":
				if len(modes) > 1 {
					modes = modes[:len(modes)-1]
				} else {
					// ANTLR panics with an empty-stack error; callers never generate this
					undecided = true
					return
				}
			case c == "skip":
				skip = true
			}
		}
		if !skip {
			toks = append(toks, tok)
		}
		pos = bestEnd
	}
	return
}
