package ref

import (
	"strings"
	"unicode/utf8"

	"verif/rt"
)

// Pos is a zero-based source position (line split on "\n", column in runes).
type Pos struct{ Line, Col int }

// Layout fixes the default alternative per site kind ("uniform style"). The
// deviations from that default are drawn through rt.Choose("L.<kind>", n), so
// that an rt.Explore over a rendering body enumerates layouts.
type Layout struct {
	Style map[string]int
}

// Rendered is a DSL text plus its source map.
type Rendered struct {
	Text  string
	Marks map[string]Pos
	Sites map[string]int // number of sites met per kind
}

// LayoutKinds lists every layout site kind the renderer knows, with the number
// of alternatives. (Documented against the grammar in DESIGN.md section 3/C03.)
var LayoutKinds = map[string]int{
	"lead": 6, "eol": 2, "gap": 6, "indent": 6, "trail": 6, "ws1": 4, "ws0": 4, "wsparen": 3, "paren": 3,
	"rnl": 2, "bodyopen": 3, "bodyclose": 3, "end": 12, "gcomm": 4,
}

type renderer struct {
	sb       strings.Builder
	line     int
	col      int
	marks    map[string]Pos
	style    map[string]int
	sites    map[string]int
	comments bool // comments allowed at nl sites (false inside condition bodies)
}

func (r *renderer) w(s string) {
	r.sb.WriteString(s)
	if i := strings.LastIndexByte(s, '\n'); i >= 0 {
		r.line += strings.Count(s, "\n")
		r.col = utf8.RuneCountInString(s[i+1:])
	} else {
		r.col += utf8.RuneCountInString(s)
	}
}

func (r *renderer) mark(key string) { r.marks[key] = Pos{r.line, r.col} }

// pick draws one alternative of a site. Alternative 0 is canonical; a uniform
// style rotates the list.
func (r *renderer) pick(kind string, alts ...string) string {
	r.sites[kind]++
	n := len(alts)
	c := rt.Choose("L."+kind, n)
	if s, ok := r.style[kind]; ok {
		c = (c + s) % n
	}
	return alts[c]
}

func (r *renderer) pickN(kind string, n int) int {
	r.sites[kind]++
	c := rt.Choose("L."+kind, n)
	if s, ok := r.style[kind]; ok {
		c = (c + s) % n
	}
	return c
}

func (r *renderer) ws1() { r.w(r.pick("ws1", " ", "  ", "\t", " \t ")) }
func (r *renderer) ws0(canon string) {
	if canon == "" {
		r.w(r.pick("ws0", "", " ", "  ", "\t"))
	} else {
		r.w(r.pick("ws0", " ", "", "  ", "\t"))
	}
}
func (r *renderer) wsparen() { r.w(r.pick("wsparen", "", " ", " \t")) }

// nl ends the current line and starts the next one with the given canonical
// indentation. blank: the canonical layout has one blank line here.
func (r *renderer) nl(indent string, blank bool) { r.nlDecl(indent, blank, false) }

// nlDecl: decl says that the line being started is a type, relation or condition declaration. The grammar itself allows a
// comment there ("(NEWLINE multiLineComment)? NEWLINE DEFINE ..."); such a comment reaches the parser when the '#' follows a tab
// (the pre-pass only removes comment lines indented by blanks): its text is tokenised, so it holds lexable text only.
func (r *renderer) nlDecl(indent string, blank, decl bool) {
	// trailing part of the line being ended
	if r.comments {
		r.w(r.pick("trail", "", " # trailing comment, see #42 # with [brackets] and : colon", "   ", "\t", "    # trailing comment behind a wide gap, was: [user:*, (a or", " \t # trailing comment behind blank, tab, blank"))
	} else {
		r.w(r.pick("trail", "", "  ", "\t", " "))
	}
	eol := r.pick("eol", "\n", "\r\n")
	r.w(eol)
	var gaps []string
	if r.comments {
		gaps = []string{"", "\n", "   \n", "# full-line comment: define x: [y] # nested\n", "    # indented comment with brackets that nothing closes: [user, (x, {y\n", "\n#\n\n"}
	} else {
		gaps = []string{"", "\n", "   \n", "\n\n", " \n", "\n   \n"}
	}
	if blank {
		gaps[0], gaps[1] = gaps[1], gaps[0]
	}
	g := r.pick("gap", gaps...)
	if eol == "\r\n" {
		g = strings.ReplaceAll(g, "\n", "\r\n")
	}
	r.w(g)
	if decl && r.comments {
		c := r.pick("gcomm", "", "\t# grammar-level comment: [user:*] (a or b) a-b, x.y/z 1.1\n",
			"\t#define type relations model schema module extend and or but not from with\n\t#\n", "\t# one\n\n  # blank-indented in between\n\t# two: was condition in_range(x: int, y: list<string>)\n")
		if eol == "\r\n" {
			c = strings.ReplaceAll(c, "\n", "\r\n")
		}
		r.w(c)
	}
	r.w(r.pick("indent", indent, "\t", "", " ", indent+"    ", "\t \t"))
}

func (r *renderer) restriction(x Restriction) {
	r.w(x.Type)
	if x.Wildcard {
		r.w(":*")
	}
	if x.Relation != "" {
		r.w("#" + x.Relation)
	}
	if x.Condition != "" {
		r.ws1()
		r.w("with")
		r.ws1()
		r.w(x.Condition)
	}
}

func (r *renderer) direct(restr []Restriction) {
	r.w("[")
	if len(restr) == 0 {
		r.ws0("")
	}
	for i, x := range restr {
		if i > 0 {
			r.w(",")
			r.ws0(" ")
		} else {
			r.ws0("")
		}
		if r.pickN("rnl", 2) == 1 {
			r.nl("      ", false)
		}
		r.restriction(x)
		if r.pickN("rnl", 2) == 1 {
			r.nl("    ", false)
		}
		r.ws0("")
	}
	r.w("]")
}

func (r *renderer) rewrite(rw *Rewrite, top bool, restr []Restriction) {
	n := 0
	if !rw.NoParen {
		n = r.pickN("paren", 3)
		if !top && rw.Kind >= Union {
			n++
		}
	}
	for i := 0; i < n; i++ {
		r.w("(")
		r.wsparen()
	}
	switch rw.Kind {
	case This:
		r.direct(restr)
	case Computed:
		r.w(rw.Rel)
	case TTU:
		r.w(rw.Rel)
		r.ws1()
		r.w("from")
		r.ws1()
		r.w(rw.Tupleset)
	case Union, Inter, Diff:
		op := map[Kind]string{Union: "or", Inter: "and", Diff: "but not"}[rw.Kind]
		for i, c := range rw.Ch {
			if i > 0 {
				r.ws1()
				r.w(op)
				r.ws1()
			}
			r.rewrite(c, false, restr)
		}
	}
	for i := 0; i < n; i++ {
		r.wsparen()
		r.w(")")
	}
}

func (r *renderer) paramType(p Param) string {
	if p.Generic != "" {
		return p.Type + "<" + p.Generic + ">"
	}
	return p.Type
}

// Render writes m as DSL. It must run inside rt.Run / rt.Explore for layout
// deviations to be drawn; outside it renders the style's default layout.
func Render(m *Model, lay *Layout) *Rendered {
	r := &renderer{marks: map[string]Pos{}, sites: map[string]int{}, comments: true}
	if lay != nil {
		r.style = lay.Style
	}
	r.w(r.pick("lead", "", "\n", "# header comment\n", "  ", "\n  \n# c1\n# c2\n", "\t# tab-indented header comment (grammar-level)\n"))
	modHdr := func() {
		r.w("module")
		r.ws1()
		r.w(orDefault(m.Module, "injected"))
	}
	mdlHdr := func() {
		r.w("model")
		r.nl("  ", false)
		r.w("schema")
		r.ws1()
		r.w(orDefault(m.Schema, "1.1"))
	}
	switch {
	case m.Hdr == 1:
		mdlHdr()
		r.nl("", false)
		modHdr()
	case m.Hdr == 2:
		modHdr()
		r.nl("", false)
		mdlHdr()
	case m.Hdr == 3:
		// no header: the first declaration still needs its leading NEWLINE to be
		// grammatical on its own, which the loops below write
	case m.Module != "":
		modHdr()
	default:
		mdlHdr()
	}
	for ti, t := range m.Types {
		r.nlDecl("", true, true)
		if t.Extend {
			r.w("extend")
			r.ws1()
		}
		r.w("type")
		r.ws1()
		r.mark(markT(ti))
		r.w(t.Name)
		if len(t.Rels) > 0 {
			r.nl("  ", false)
			r.w("relations")
		}
		for ri, rel := range t.Rels {
			r.nlDecl("    ", false, true)
			r.w("define")
			r.ws1()
			r.mark(markR(ti, ri))
			r.w(rel.Name)
			r.ws0("")
			r.w(":")
			r.ws0(" ")
			r.rewrite(rel.Rw, true, rel.Restr)
		}
	}
	for ci, c := range m.Conds {
		r.nlDecl("", true, true)
		r.w("condition")
		r.ws1()
		r.mark(markC(ci))
		r.w(c.Name)
		r.ws0("")
		r.w("(")
		for pi, p := range c.Params {
			if pi > 0 {
				r.w(",")
				r.ws0(" ")
			} else {
				r.ws0("")
			}
			r.mark(markP(ci, pi))
			r.w(p.Name)
			r.ws0("")
			r.w(":")
			r.ws0(" ")
			r.w(r.paramType(p))
			r.ws0("")
		}
		r.w(")")
		r.ws0(" ")
		r.w("{")
		switch r.pickN("bodyopen", 3) {
		case 0:
			r.comments = false
			r.nl("  ", false)
			r.comments = true
		case 1:
			// inline
		case 2:
			r.w(" ")
		}
		r.w(c.Expr)
		switch r.pickN("bodyclose", 3) {
		case 0:
			r.comments = false
			r.nl("", false)
			r.comments = true
		case 1:
		case 2:
			r.w(" ")
		}
		r.w("}")
	}
	r.w(r.pick("end", "\n", "", "\n\n\n", "\n# trailing comment", "\n   ", "\r\n", " # comment on the last line, no line end", "   # comment on the last line behind a wide gap\n", "  # last line, wide gap, CRLF\r\n\r\n", "\t\n", " # last-line comment\n\n  # and more\n", " \t \n\n"))
	return &Rendered{Text: r.sb.String(), Marks: r.marks, Sites: r.sites}
}

func orDefault(s, d string) string {
	if s == "" {
		return d
	}
	return s
}

func markT(i int) string    { return "T" + itoa(i) }
func markR(i, j int) string { return "R" + itoa(i) + "." + itoa(j) }
func markC(i int) string    { return "C" + itoa(i) }
func markP(i, j int) string { return "P" + itoa(i) + "." + itoa(j) }

// MarkT etc. name source-map entries.
func MarkT(i int) string    { return markT(i) }
func MarkR(i, j int) string { return markR(i, j) }
func MarkC(i int) string    { return markC(i) }
func MarkP(i, j int) string { return markP(i, j) }

func itoa(i int) string {
	if i == 0 {
		return "0"
	}
	s := ""
	for i > 0 {
		s = string(rune('0'+i%10)) + s
		i /= 10
	}
	return s
}
