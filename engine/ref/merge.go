package ref

import "sort"

// MFile is one module file as the merge reference sees it: the declarations
// the generator put into the file (not parsed output).
type MFile struct {
	Name      string
	M         *Model // nil when the member is malformed
	Malformed string // "", "not-a-module", "syntax"
}

// DeclRef points at a declaration: file plus source-map key of its name.
type DeclRef struct {
	File string
	Mark string
}

// Conflict is one reason for which the merge must fail.
type Conflict struct {
	Kind  string // duplicate-type, duplicate-condition, missing-extension-target, relation-clash
	Name  string
	Files []string  // files taking part in the conflict
	Decls []DeclRef // the declarations taking part
}

// MergeOutcome is the reference result of merging a file list.
type MergeOutcome struct {
	OK        bool
	Malformed []string // names of members that are not parseable module files
	Conflicts []Conflict
	Model     *Model // expected merged model when OK
}

func addFile(fs []string, f string) []string {
	for _, x := range fs {
		if x == f {
			return fs
		}
	}
	return append(fs, f)
}

// MergeRef computes the reference outcome: success iff every file parses as a
// module, no type is defined twice, no condition is defined twice, every
// extension targets a defined type and no relation is contributed twice to one
// type.
func MergeRef(files []MFile, schema string) *MergeOutcome {
	out := &MergeOutcome{}
	type tdecl struct {
		file string
		mod  string
		idx  int
		t    *TypeDef
	}
	var defs, exts []tdecl
	type cdecl struct {
		file string
		mod  string
		idx  int
		c    *Condition
	}
	var conds []cdecl
	for _, f := range files {
		if f.Malformed != "" || f.M == nil {
			out.Malformed = append(out.Malformed, f.Name)
			continue
		}
		// the same type extended twice in one file does not parse
		seenExt := map[string]bool{}
		bad := false
		for i := range f.M.Types {
			t := &f.M.Types[i]
			if t.Extend {
				if seenExt[t.Name] {
					bad = true
				}
				seenExt[t.Name] = true
			}
			// a relation declared twice inside one declaration does not parse either
			rn := map[string]bool{}
			for _, r := range t.Rels {
				if rn[r.Name] {
					bad = true
				}
				rn[r.Name] = true
			}
		}
		cn := map[string]bool{}
		for _, c := range f.M.Conds {
			if cn[c.Name] {
				bad = true
			}
			cn[c.Name] = true
		}
		if bad {
			out.Malformed = append(out.Malformed, f.Name)
			continue
		}
		for i := range f.M.Types {
			t := &f.M.Types[i]
			d := tdecl{f.Name, f.M.Module, i, t}
			if t.Extend {
				exts = append(exts, d)
			} else {
				defs = append(defs, d)
			}
		}
		for i := range f.M.Conds {
			conds = append(conds, cdecl{f.Name, f.M.Module, i, &f.M.Conds[i]})
		}
	}
	// duplicate types
	byType := map[string][]tdecl{}
	var typeOrder []string
	for _, d := range defs {
		if _, ok := byType[d.t.Name]; !ok {
			typeOrder = append(typeOrder, d.t.Name)
		}
		byType[d.t.Name] = append(byType[d.t.Name], d)
	}
	for _, n := range typeOrder {
		if ds := byType[n]; len(ds) > 1 {
			c := Conflict{Kind: "duplicate-type", Name: n}
			for _, d := range ds {
				c.Files = addFile(c.Files, d.file)
				c.Decls = append(c.Decls, DeclRef{d.file, MarkT(d.idx)})
			}
			out.Conflicts = append(out.Conflicts, c)
		}
	}
	// duplicate conditions
	byCond := map[string][]cdecl{}
	var condOrder []string
	for _, d := range conds {
		if _, ok := byCond[d.c.Name]; !ok {
			condOrder = append(condOrder, d.c.Name)
		}
		byCond[d.c.Name] = append(byCond[d.c.Name], d)
	}
	for _, n := range condOrder {
		if ds := byCond[n]; len(ds) > 1 {
			c := Conflict{Kind: "duplicate-condition", Name: n}
			for _, d := range ds {
				c.Files = addFile(c.Files, d.file)
				c.Decls = append(c.Decls, DeclRef{d.file, MarkC(d.idx)})
			}
			out.Conflicts = append(out.Conflicts, c)
		}
	}
	// extensions
	extByType := map[string][]tdecl{}
	var extOrder []string
	for _, e := range exts {
		if _, ok := extByType[e.t.Name]; !ok {
			extOrder = append(extOrder, e.t.Name)
		}
		extByType[e.t.Name] = append(extByType[e.t.Name], e)
	}
	for _, n := range extOrder {
		es := extByType[n]
		if len(byType[n]) == 0 {
			c := Conflict{Kind: "missing-extension-target", Name: n}
			for _, e := range es {
				c.Files = addFile(c.Files, e.file)
				c.Decls = append(c.Decls, DeclRef{e.file, MarkT(e.idx)})
			}
			out.Conflicts = append(out.Conflicts, c)
			continue
		}
		// relation contributed twice
		type contrib struct {
			file string
			mark string
			base bool
		}
		by := map[string][]contrib{}
		var relOrder []string
		note := func(r string, c contrib) {
			if _, ok := by[r]; !ok {
				relOrder = append(relOrder, r)
			}
			by[r] = append(by[r], c)
		}
		for _, d := range byType[n] {
			for ri, r := range d.t.Rels {
				note(r.Name, contrib{d.file, MarkR(d.idx, ri), true})
			}
		}
		for _, e := range es {
			for ri, r := range e.t.Rels {
				note(r.Name, contrib{e.file, MarkR(e.idx, ri), false})
			}
		}
		for _, r := range relOrder {
			cs := by[r]
			nExt := 0
			for _, c := range cs {
				if !c.base {
					nExt++
				}
			}
			if len(cs) > 1 && nExt > 0 && len(byType[n]) == 1 {
				c := Conflict{Kind: "relation-clash", Name: n + "#" + r}
				for _, x := range cs {
					c.Files = addFile(c.Files, x.file)
					c.Decls = append(c.Decls, DeclRef{x.file, x.mark})
				}
				out.Conflicts = append(out.Conflicts, c)
			}
		}
	}
	out.OK = len(out.Malformed) == 0 && len(out.Conflicts) == 0
	if !out.OK {
		return out
	}
	// expected merged model
	m := &Model{Schema: schema}
	for _, d := range defs {
		t := TypeDef{Name: d.t.Name, Module: d.mod, File: d.file}
		for _, r := range d.t.Rels {
			t.Rels = append(t.Rels, Relation{Name: r.Name, Rw: r.Rw, Restr: r.Restr})
		}
		for _, e := range extByType[d.t.Name] {
			for _, r := range e.t.Rels {
				t.Rels = append(t.Rels, Relation{Name: r.Name, Rw: r.Rw, Restr: r.Restr, Module: e.mod, File: e.file})
			}
		}
		m.Types = append(m.Types, t)
	}
	for _, c := range conds {
		cc := *c.c
		cc.Module, cc.File = c.mod, c.file
		m.Conds = append(m.Conds, cc)
	}
	sort.SliceStable(m.Conds, func(i, j int) bool { return m.Conds[i].Name < m.Conds[j].Name })
	out.Model = m
	return out
}
