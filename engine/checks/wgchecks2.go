package checks

import (
	"encoding/json"
	"fmt"
	"sort"
	"strings"

	"github.com/openfga/language/pkg/go/graph"

	"verif/core"
	"verif/gen"
	"verif/ref"
)

// ---- C04: weights ---------------------------------------------------------------

// wgWeightDiff compares the observed weights with the annotated reference graph
// (rg must have been analysed). It returns "" when they agree.
func wgWeightDiff(rg *ref.WG, o *wgObs) string {
	if o.match == nil {
		wgMatch(rg, o)
	}
	if o.structErr != "" {
		return "structure: " + o.structErr
	}
	var diffs []string
	for _, r := range rg.Order {
		x := o.match[r.ID]
		if x == nil {
			continue
		}
		if r.Kind == ref.NRel || r.Kind == ref.NOp {
			for k := range x.GetWeights() {
				if strings.HasPrefix(k, "R#") {
					diffs = append(diffs, fmt.Sprintf("%s: unresolved cycle placeholder %q visible", r.ID, k))
				}
			}
			if len(x.GetWeights()) == 0 {
				diffs = append(diffs, fmt.Sprintf("%s: empty weight map", r.ID))
			}
			if got, want := ref.FmtWeights(x.GetWeights()), ref.FmtWeights(r.W); got != want {
				diffs = append(diffs, fmt.Sprintf("%s: weights %s, expected %s", r.ID, got, want))
			}
		}
		// the accessors agree with one another: GetWeight(k) with GetWeights()[k], GetNodeByID with GetNodes, GetEdgesFromNode
		// with GetEdges, an edge's ends with the node it hangs on
		for k, v := range x.GetWeights() {
			if w, ok := x.GetWeight(k); !ok || w != v {
				diffs = append(diffs, fmt.Sprintf("%s: GetWeight(%q) = (%d, %v), GetWeights has %d", r.ID, k, w, ok, v))
			}
		}
		if _, ok := x.GetWeight("no-such-type"); ok {
			diffs = append(diffs, fmt.Sprintf("%s: GetWeight of an unknown type reports a weight", r.ID))
		}
		if byID, ok := o.g.GetNodeByID(x.GetUniqueLabel()); !ok || byID != x || o.g.GetNodes()[x.GetUniqueLabel()] != x {
			diffs = append(diffs, fmt.Sprintf("%s: GetNodeByID / GetNodes do not return the node that edges point to", r.ID))
		}
		xe, _ := o.g.GetEdgesFromNode(x)
		if all := o.g.GetEdges()[x.GetUniqueLabel()]; len(all) != len(xe) {
			diffs = append(diffs, fmt.Sprintf("%s: GetEdgesFromNode returns %d edges, GetEdges %d", r.ID, len(xe), len(all)))
		}
		for i, e := range xe {
			if e.GetFrom() != x {
				diffs = append(diffs, fmt.Sprintf("%s edge %d: GetFrom is another node (%s)", r.ID, i, e.GetFrom().GetUniqueLabel()))
			}
			for k, v := range e.GetWeights() {
				if w, ok := e.GetWeight(k); !ok || w != v {
					diffs = append(diffs, fmt.Sprintf("%s edge %d: GetWeight(%q) = (%d, %v), GetWeights has %d", r.ID, i, k, w, ok, v))
				}
			}
		}
		for i, re := range r.Edges {
			if i >= len(xe) {
				break
			}
			for k := range xe[i].GetWeights() {
				if strings.HasPrefix(k, "R#") {
					diffs = append(diffs, fmt.Sprintf("%s edge %d: unresolved cycle placeholder %q visible", r.ID, i, k))
				}
			}
			if got, want := ref.FmtWeights(xe[i].GetWeights()), ref.FmtWeights(ref.EdgeWeights(re)); got != want {
				diffs = append(diffs, fmt.Sprintf("%s edge %d -> %s: weights %s, expected %s", r.ID, i, re.To.ID, got, want))
			}
		}
	}
	sort.Strings(diffs)
	return strings.Join(diffs, "\n")
}

func c04One(ctx *core.Ctx, tm gen.Tagged, rg *ref.WG, wf bool, o *wgObs, ch []int, pinned bool) bool {
	if o.verdict != "accepted" {
		return true // the property speaks about accepted models; verdicts are C05's
	}
	if !wf && !core.IsKnown("F10-edgewise-operands") {
		return true // accepted although ill-founded: C05 reports it
	}
	cs := wgCaseOf(tm, ch, pinned)
	var d string
	if wf {
		rg.Analyse(ref.OperandWise)
		d = wgWeightDiff(rg, o)
		if d == "" {
			ctx.Flag("c04:weights-agree")
			return true
		}
	}
	// exactly known finding F10? then the observed maps are what the edge-wise defect model predicts
	if core.IsKnown("F10-edgewise-operands") && hasMultiEdgeOperand(rg) {
		if an := rg.Analyse(ref.EdgeWise); an.WellFounded {
			if wgWeightDiff(rg, o) == "" {
				ctx.Known("F10-edgewise-operands", fmt.Sprintf("%s: weights are those of the edge-wise defect model", tm.Tag))
				return true
			}
		}
	}
	if !wf {
		return true // C05's business
	}
	rg.Analyse(ref.OperandWise)
	ctx.Violation("weights-differ-from-reference", fmt.Sprintf("%s [schedule %v]:\n%s", tm.Tag, ch, d), cs, "weights = longest hop count per reachable terminal type", d)
	return false
}

func c04Run(ctx *core.Ctx) {
	wgModels(ctx, func(i int, tm gen.Tagged) bool {
		ctx.Eval(1)
		rg := ref.BuildWG(tm.M)
		an := rg.Analyse(ref.OperandWise)
		wf := an.WellFounded
		if wf && an.HasTupleCycle {
			ctx.Flag("c04:tuple-cycle-model")
		}
		ok := wgExploreAll(ctx, tm.M, rg, func(o *wgObs, ch []int, pinned bool) bool {
			r := c04One(ctx, tm, rg, wf, o, ch, pinned)
			if o.verdict == "accepted" {
				ctx.State(wgDump(rg, o))
			}
			return r
		})
		if ok && wf {
			ctx.Nontrivial(tm.Tag)
			if ctx.WantSample() && an.HasTupleCycle && i%7 == 0 {
				rg.Analyse(ref.OperandWise)
				w := map[string]string{}
				for _, nd := range rg.Order {
					if nd.Kind == ref.NRel {
						w[nd.ID] = ref.FmtWeights(nd.W)
					}
				}
				ctx.Sample(map[string]any{"model": tm.Tag, "reference_relation_weights": w})
			}
		}
		return true
	})
}

// ---- C10: structure -------------------------------------------------------------

func c10Models(ctx *core.Ctx, f func(i int, tm gen.Tagged) bool) {
	// structure-specific alphabet extensions first
	extra := append(c10Extra(), c10ManyConds()...)
	for j, tm := range extra {
		if ctx.Mine(j) {
			if !f(j, tm) {
				return
			}
		}
	}
	wgModels(ctx, func(i int, tm gen.Tagged) bool { return f(len(extra)+i, tm) })
}

// c10Extra: duplicate and mixed conditioned restrictions, the same userset
// through several paths, repeated operands, a direct assignment twice under one
// operator, nesting depth 3, tuplesets with a repeated parent type.
func c10Extra() []gen.Tagged {
	u := ref.Restriction{Type: "user"}
	uk := ref.Restriction{Type: "user", Condition: "k"}
	uj := ref.Restriction{Type: "user", Condition: "j"}
	uw := ref.Restriction{Type: "user", Wildcard: true}
	uwk := ref.Restriction{Type: "user", Wildcard: true, Condition: "k"}
	gm := ref.Restriction{Type: "group", Relation: "m"}
	gmk := ref.Restriction{Type: "group", Relation: "m", Condition: "k"}
	lists := [][]ref.Restriction{
		{u, uk}, {uk, u}, {uk, uj, u, uk}, {u, u}, {uk}, {uw, uwk, u}, {gm, gmk, gm}, {gmk, u, gm, uw, uj}, {uwk, uw}, {u, gm, uk, gmk, uw, uwk},
	}
	rws := []*ref.Rewrite{
		ref.T(),
		ref.U(ref.T(), ref.C("b")),
		ref.U(ref.C("b"), ref.C("b")),
		ref.U(ref.T(), ref.T()),
		ref.I(ref.T(), ref.C("b"), ref.C("b")),
		ref.D(ref.U(ref.T(), ref.I(ref.C("b"), ref.U(ref.TT("b", "p"), ref.C("b")))), ref.C("b")),
		ref.U(ref.TT("b", "p"), ref.TT("b", "q")),
		ref.D(ref.C("b"), ref.T()),
		ref.I(ref.U(ref.T(), ref.C("b")), ref.U(ref.T(), ref.TT("b", "p"))),
	}
	var out []gen.Tagged
	for li, l := range lists {
		for ri, rw := range rws {
			m := &ref.Model{Schema: "1.1", Types: []ref.TypeDef{
				{Name: "user"},
				{Name: "group", Rels: []ref.Relation{{Name: "m", Rw: ref.T(), Restr: []ref.Restriction{u}}}},
				{Name: "doc", Rels: []ref.Relation{
					{Name: "a", Rw: rw, Restr: l},
					{Name: "b", Rw: ref.T(), Restr: []ref.Restriction{u, gm}},
					{Name: "p", Rw: ref.T(), Restr: []ref.Restriction{{Type: "doc"}, {Type: "doc", Condition: "k"}, {Type: "doc"}}},
					{Name: "q", Rw: ref.T(), Restr: []ref.Restriction{{Type: "doc", Condition: "j"}, {Type: "doc", Relation: "b"}}},
				}},
			}, Conds: []ref.Condition{
				{Name: "k", Params: []ref.Param{{Name: "x", Type: "int"}}, Expr: "x < 1"},
				{Name: "j", Params: []ref.Param{{Name: "x", Type: "int"}}, Expr: "x < 2"},
			}}
			out = append(out, gen.Tagged{Tag: fmt.Sprintf("structure: list %d %v / rewrite %d %s", li, l, ri, rw), M: m})
		}
	}
	return out
}

// c10ManyConds: one target reached under every ordered list of one to four distinct entries out of {unconditioned, k1, k2,
// k3, k4} - as a terminal type, as a userset, as the parent type of a tupleset - with a second relation b that reaches the
// same target under a list of its own (condition lists are Go slices grown by append: lists of three leave spare capacity).
func c10ManyConds() []gen.Tagged {
	var out []gen.Tagged
	conds := []string{"", "k1", "k2", "k3", "k4"}
	var lists [][]string
	var rec func(cur []string, used int)
	rec = func(cur []string, used int) {
		if len(cur) > 0 {
			lists = append(lists, append([]string{}, cur...))
		}
		if len(cur) == 4 {
			return
		}
		for i, c := range conds {
			if used&(1<<i) == 0 {
				rec(append(cur, c), used|1<<i)
			}
		}
	}
	rec(nil, 0)
	var cdefs []ref.Condition
	for _, c := range conds[1:] {
		cdefs = append(cdefs, ref.Condition{Name: c, Params: []ref.Param{{Name: "x", Type: "int"}}, Expr: "x < 1"})
	}
	u := ref.Restriction{Type: "user"}
	mk := func(target ref.Restriction, l []string) []ref.Restriction {
		var rs []ref.Restriction
		for _, c := range l {
			r := target
			r.Condition = c
			rs = append(rs, r)
		}
		return rs
	}
	other := []string{"k4", "", "k1"}
	for li, l := range lists {
		for ti, target := range []ref.Restriction{{Type: "user"}, {Type: "group", Relation: "m"}, {Type: "user", Wildcard: true}} {
			doc := ref.TypeDef{Name: "doc", Rels: []ref.Relation{
				{Name: "a", Rw: ref.T(), Restr: mk(target, l)},
				{Name: "b", Rw: ref.U(ref.T(), ref.C("a")), Restr: mk(target, other)},
			}}
			m := &ref.Model{Schema: "1.1", Conds: cdefs, Types: []ref.TypeDef{{Name: "user"},
				{Name: "group", Rels: []ref.Relation{{Name: "m", Rw: ref.T(), Restr: []ref.Restriction{u}}}}, doc}}
			out = append(out, gen.Tagged{Tag: fmt.Sprintf("many-conditions: list %d %v on target %d", li, l, ti), M: m})
		}
		// the list on the parent type of a tupleset
		doc := ref.TypeDef{Name: "doc", Rels: []ref.Relation{
			{Name: "p", Rw: ref.T(), Restr: mk(ref.Restriction{Type: "doc"}, l)},
			{Name: "q", Rw: ref.T(), Restr: mk(ref.Restriction{Type: "doc"}, other)},
			{Name: "a", Rw: ref.U(ref.T(), ref.TT("a", "p"), ref.TT("a", "q")), Restr: []ref.Restriction{u}},
		}}
		m := &ref.Model{Schema: "1.1", Conds: cdefs, Types: []ref.TypeDef{{Name: "user"}, doc}}
		out = append(out, gen.Tagged{Tag: fmt.Sprintf("many-conditions: list %d %v on a tupleset", li, l), M: m})
	}
	return out
}

func c10Run(ctx *core.Ctx) {
	c10Models(ctx, func(i int, tm gen.Tagged) bool {
		ctx.Eval(1)
		rg := ref.BuildWG(tm.M)
		pm := ref.ToProto(tm.M)
		before := ref.Dump(pm, ref.DumpOpts{Strict: true, RawExpr: true})
		// the structure does not depend on weight assignment; it is compared on every
		// accepted execution of the builder's own map sites and of the default schedule
		o := wgBuild(pm)
		ctx.Trans(1)
		if after := ref.Dump(pm, ref.DumpOpts{Strict: true, RawExpr: true}); after != before {
			ctx.Violation("build-modifies-model", tm.Tag+": Build modified the model it was given", wgCaseOf(tm, nil, false), before, after)
			return true
		}
		if o.verdict != "accepted" {
			ctx.Flag("c10:rejected-skipped")
			return true
		}
		wgExploreAll(ctx, tm.M, rg, func(o *wgObs, ch []int, pinned bool) bool {
			if o.verdict != "accepted" {
				return true
			}
			wgMatch(rg, o)
			if o.structErr != "" {
				ctx.Violation("structure-differs", fmt.Sprintf("%s [schedule %v]: %s", tm.Tag, ch, o.structErr), wgCaseOf(tm, ch, pinned), "graph structure mirrors the rewrite", o.structErr)
				return false
			}
			ctx.Flag("c10:matched")
			return true
		})
		var sig []string
		for _, nd := range rg.Order {
			sig = append(sig, fmt.Sprintf("%d:%s:%s", nd.Kind, nd.Label, fmtRefEdges(nd)))
			for _, e := range nd.Edges {
				if len(e.Conds) > 1 {
					ctx.Flag("c10:multi-condition-edge")
				}
				if e.Kind == ref.ETTU {
					ctx.Flag("c10:ttu-edge")
				}
				if e.Kind == ref.EComputed {
					ctx.Flag("c10:computed-edge")
				}
			}
			if nd.Kind == ref.NWild {
				ctx.Flag("c10:wildcard-node")
			}
			if nd.Kind == ref.NOp && nd.Op == ref.Diff {
				ctx.Flag("c10:exclusion-node")
			}
		}
		ctx.State(strings.Join(sig, "|"))
		ctx.Nontrivial(tm.Tag)
		if ctx.WantSample() && i%13 == 5 {
			ctx.Sample(map[string]any{"model": tm.Tag, "expected_nodes_and_edges": sig})
		}
		return true
	})
}

// ---- C11: wildcards -------------------------------------------------------------

func wildDiff(rg *ref.WG, o *wgObs) string {
	if o.match == nil {
		wgMatch(rg, o)
	}
	if o.structErr != "" {
		return "structure: " + o.structErr
	}
	var diffs []string
	setOf := func(l []string) (map[string]bool, bool) {
		s := map[string]bool{}
		dup := false
		for _, x := range l {
			if s[x] {
				dup = true
			}
			s[x] = true
		}
		return s, dup
	}
	for _, r := range rg.Order {
		x := o.match[r.ID]
		if x == nil || r.Kind == ref.NType || r.Kind == ref.NWild {
			continue
		}
		got, dup := setOf(x.GetWildcards())
		if dup {
			diffs = append(diffs, fmt.Sprintf("%s: duplicate entries in wildcard list %v", r.ID, x.GetWildcards()))
		}
		if ref.FmtSet(got) != ref.FmtSet(r.Wild) {
			diffs = append(diffs, fmt.Sprintf("%s: wildcards %s, expected %s (reachable public types)", r.ID, ref.FmtSet(got), ref.FmtSet(r.Wild)))
		}
		xe, _ := o.g.GetEdgesFromNode(x)
		for i, re := range r.Edges {
			if i >= len(xe) {
				break
			}
			want := re.To.Wild
			if re.To.Kind == ref.NWild {
				want = map[string]bool{strings.TrimSuffix(re.To.Label, ":*"): true}
			}
			if re.To.Kind == ref.NType {
				want = map[string]bool{}
			}
			got, dup := setOf(xe[i].GetWildcards())
			if dup {
				diffs = append(diffs, fmt.Sprintf("%s edge %d: duplicate entries in wildcard list %v", r.ID, i, xe[i].GetWildcards()))
			}
			if ref.FmtSet(got) != ref.FmtSet(want) {
				diffs = append(diffs, fmt.Sprintf("%s edge %d -> %s: wildcards %s, expected %s", r.ID, i, re.To.ID, ref.FmtSet(got), ref.FmtSet(want)))
			}
		}
	}
	sort.Strings(diffs)
	return strings.Join(diffs, "\n")
}

// c11Extra: wildcard restrictions in every leaf position, inside and behind
// tuple cycles, under intersections and exclusions.
func c11Extra() []gen.Tagged {
	var out []gen.Tagged
	uw := ref.Restriction{Type: "user", Wildcard: true}
	gw := ref.Restriction{Type: "group", Wildcard: true}
	u := ref.Restriction{Type: "user"}
	g := ref.Restriction{Type: "group"}
	type rs struct {
		tag string
		rw  *ref.Rewrite
		l   []ref.Restriction
	}
	as := []rs{
		{"[user:*]", ref.T(), []ref.Restriction{uw}},
		{"[user:*, group:*]", ref.T(), []ref.Restriction{uw, gw}},
		{"[user, user:*] or a from p", ref.U(ref.T(), ref.TT("a", "p")), []ref.Restriction{u, uw}},
		{"[group:*, doc#a]", ref.T(), []ref.Restriction{gw, {Type: "doc", Relation: "a"}}},
		{"[user] or c", ref.U(ref.T(), ref.C("c")), []ref.Restriction{u}},
		{"[user:*] and c", ref.I(ref.T(), ref.C("c")), []ref.Restriction{uw}},
		{"c but not [user:*]", ref.D(ref.C("c"), ref.T()), []ref.Restriction{uw}},
		{"[user:*] but not c", ref.D(ref.T(), ref.C("c")), []ref.Restriction{uw}},
		{"b from p or [user]", ref.U(ref.TT("b", "p"), ref.T()), []ref.Restriction{u}},
		{"[user:*] or b from p", ref.U(ref.T(), ref.TT("b", "p")), []ref.Restriction{uw}},
		{"b or [user:*]", ref.U(ref.C("b"), ref.T()), []ref.Restriction{uw}},
		{"[user:*, doc#b]", ref.T(), []ref.Restriction{uw, {Type: "doc", Relation: "b"}}},
	}
	bs := []rs{
		{"[user]", ref.T(), []ref.Restriction{u}},
		{"a", ref.C("a"), nil},
		{"[group:*] or a", ref.U(ref.T(), ref.C("a")), []ref.Restriction{gw}},
		{"[user, doc#b]", ref.T(), []ref.Restriction{u, {Type: "doc", Relation: "b"}}},
		{"[group] or b from p or a", ref.U(ref.T(), ref.TT("b", "p"), ref.C("a")), []ref.Restriction{g}},
		{"a from p", ref.TT("a", "p"), nil},
		{"[group:*] or a from p", ref.U(ref.T(), ref.TT("a", "p")), []ref.Restriction{gw}},
		{"[group:*, user] or c from p or a from p", ref.U(ref.T(), ref.TT("c", "p"), ref.TT("a", "p")), []ref.Restriction{gw, u}},
		{"[group:*, doc#a, doc#c]", ref.T(), []ref.Restriction{gw, {Type: "doc", Relation: "a"}, {Type: "doc", Relation: "c"}}},
	}
	cs := []rs{
		{"[user]", ref.T(), []ref.Restriction{u}},
		{"[user:*, user]", ref.T(), []ref.Restriction{uw, u}},
		{"[group:*] or c from p", ref.U(ref.T(), ref.TT("c", "p")), []ref.Restriction{gw}},
		{"[user, group:*, doc#c]", ref.T(), []ref.Restriction{u, gw, {Type: "doc", Relation: "c"}}},
		{"[folder:*] or a from p or b", ref.U(ref.T(), ref.TT("a", "p"), ref.C("b")), []ref.Restriction{{Type: "folder", Wildcard: true}}},
		{"[folder:*, doc#a]", ref.T(), []ref.Restriction{{Type: "folder", Wildcard: true}, {Type: "doc", Relation: "a"}}},
	}
	for _, a := range as {
		for _, b := range bs {
			for _, c := range cs {
				m := &ref.Model{Schema: "1.1", Types: []ref.TypeDef{{Name: "user"}, {Name: "group"}, {Name: "doc", Rels: []ref.Relation{
					{Name: "a", Rw: a.rw, Restr: a.l}, {Name: "b", Rw: b.rw, Restr: b.l}, {Name: "c", Rw: c.rw, Restr: c.l},
					{Name: "p", Rw: ref.T(), Restr: []ref.Restriction{{Type: "doc"}}},
				}}}}
				out = append(out, gen.Tagged{Tag: fmt.Sprintf("wildcards: a: %s | b: %s | c: %s", a.tag, b.tag, c.tag), M: m})
			}
		}
	}
	return out
}

// c11Many: many public types. Relation m is assignable to every ordered list of one to four public types out of four; one
// or two parents reach m by a userset, a computed or a tuple-to-userset edge - before or after public types of their own
// that sort before, between and after m's - and optionally each other. (Wildcard lists are Go slices that nodes and edges
// hand to one another: three entries appended one by one leave spare capacity that a later append of a parent writes into.)
func c11Many() []gen.Tagged {
	var out []gen.Tagged
	pub := func(t string) ref.Restriction { return ref.Restriction{Type: t, Wildcard: true} }
	pool := []string{"b2", "c3", "d4", "e5"}
	var lists [][]ref.Restriction
	var rec func(cur []ref.Restriction, used int)
	rec = func(cur []ref.Restriction, used int) {
		if len(cur) > 0 {
			lists = append(lists, append([]ref.Restriction{}, cur...))
		}
		for i, t := range pool {
			if used&(1<<i) == 0 {
				rec(append(cur, pub(t)), used|1<<i)
			}
		}
	}
	rec(nil, 0)
	um := ref.Restriction{Type: "doc", Relation: "m"}
	uv := ref.Restriction{Type: "doc", Relation: "v"}
	type rs struct {
		tag string
		rw  *ref.Rewrite
		l   []ref.Restriction
	}
	vs := []rs{
		{"[doc#m, a1:*]", ref.T(), []ref.Restriction{um, pub("a1")}},
		{"[a1:*, doc#m]", ref.T(), []ref.Restriction{pub("a1"), um}},
		{"[doc#m, c3:*, a1:*]", ref.T(), []ref.Restriction{um, pub("c3"), pub("a1")}},
		{"m or [a1:*]", ref.U(ref.C("m"), ref.T()), []ref.Restriction{pub("a1")}},
		{"[d4:*] or m from p", ref.U(ref.T(), ref.TT("m", "p")), []ref.Restriction{pub("d4")}},
		{"m from p or [a1:*, e5:*]", ref.U(ref.TT("m", "p"), ref.T()), []ref.Restriction{pub("a1"), pub("e5")}},
	}
	ws := []*rs{
		nil,
		{"[doc#m, d4:*]", ref.T(), []ref.Restriction{um, pub("d4")}},
		{"[doc#m, f6:*, a1:*]", ref.T(), []ref.Restriction{um, pub("f6"), pub("a1")}},
		{"[doc#v, b2:*]", ref.T(), []ref.Restriction{uv, pub("b2")}},
		{"m or [f6:*]", ref.U(ref.C("m"), ref.T()), []ref.Restriction{pub("f6")}},
	}
	for _, l := range lists {
		for _, v := range vs {
			for _, w := range ws {
				doc := ref.TypeDef{Name: "doc", Rels: []ref.Relation{
					{Name: "m", Rw: ref.T(), Restr: l},
					{Name: "p", Rw: ref.T(), Restr: []ref.Restriction{{Type: "doc"}}},
					{Name: "v", Rw: v.rw, Restr: v.l},
				}}
				tag := fmt.Sprintf("many-public: m: %v | v: %s", l, v.tag)
				if w != nil {
					doc.Rels = append(doc.Rels, ref.Relation{Name: "w", Rw: w.rw, Restr: w.l})
					tag += " | w: " + w.tag
				}
				m := &ref.Model{Schema: "1.1", Types: []ref.TypeDef{{Name: "a1"}, {Name: "b2"}, {Name: "c3"}, {Name: "d4"}, {Name: "e5"}, {Name: "f6"}, doc}}
				out = append(out, gen.Tagged{Tag: tag, M: m})
			}
		}
	}
	return out
}

// c11Cycle: two relations a and b on one tuple cycle (each assignable to the other's userset), each with an optional public
// type listed before or after the userset, and a relation x behind the cycle that enters it at a or at b and may list a
// public type of its own - the public types drawn from {e, m, u} so that they sort before, between and after one another.
func c11Cycle() []gen.Tagged {
	var out []gen.Tagged
	pub := func(t string) ref.Restriction { return ref.Restriction{Type: t, Wildcard: true} }
	us := func(r string) ref.Restriction { return ref.Restriction{Type: "doc", Relation: r} }
	lists := func(userset ref.Restriction, pubs []string) [][]ref.Restriction {
		ls := [][]ref.Restriction{{userset}}
		for _, p := range pubs {
			ls = append(ls, []ref.Restriction{userset, pub(p)}, []ref.Restriction{pub(p), userset})
		}
		return ls
	}
	as := lists(us("b"), []string{"e", "u"})
	bs := lists(us("a"), []string{"e", "m", "u"})
	var xs [][]ref.Restriction
	for _, entry := range []string{"a", "b"} {
		xs = append(xs, lists(us(entry), []string{"e", "u"})...)
	}
	for _, a := range as {
		for _, b := range bs {
			for _, x := range xs {
				// a terminal type keeps the model well-founded
				bl := append(append([]ref.Restriction{}, b...), ref.Restriction{Type: "e"})
				doc := ref.TypeDef{Name: "doc", Rels: []ref.Relation{
					{Name: "a", Rw: ref.T(), Restr: a}, {Name: "b", Rw: ref.T(), Restr: bl}, {Name: "x", Rw: ref.T(), Restr: x},
				}}
				m := &ref.Model{Schema: "1.1", Types: []ref.TypeDef{{Name: "e"}, {Name: "m"}, {Name: "u"}, doc}}
				out = append(out, gen.Tagged{Tag: fmt.Sprintf("cycle-publics: a: %v | b: %v | x: %v", a, bl, x), M: m})
			}
		}
	}
	return out
}

func c11Run(ctx *core.Ctx) {
	run := func(i int, tm gen.Tagged) bool {
		ctx.Eval(1)
		rg := ref.BuildWG(tm.M)
		an := rg.Analyse(ref.OperandWise)
		if !an.WellFounded {
			return true
		}
		anyWild := false
		behindCycle := false
		for _, nd := range rg.Order {
			if nd.Kind == ref.NRel && len(nd.Wild) > 0 {
				anyWild = true
				if nd.W != nil {
					for _, v := range nd.W {
						if v == ref.Inf {
							behindCycle = true
						}
					}
				}
			}
		}
		ok := wgExploreAll(ctx, tm.M, rg, func(o *wgObs, ch []int, pinned bool) bool {
			if o.verdict != "accepted" {
				return true
			}
			// the wildcard sets are judged on the real graph's edges; C10 vouches for those
			if d := wildDiff(rg, o); d != "" {
				ctx.Violation("wildcards-differ-from-reachability", fmt.Sprintf("%s [schedule %v]:\n%s", tm.Tag, ch, d), wgCaseOf(tm, ch, pinned), "wildcard list = set of reachable public types", d)
				return false
			}
			ctx.Flag("c11:agree")
			return true
		})
		if ok {
			if anyWild {
				ctx.Flag("c11:wildcards-present")
				ctx.Nontrivial(tm.Tag)
			}
			if behindCycle {
				ctx.Flag("c11:wildcard-on-or-behind-cycle")
			}
			var sig []string
			for _, nd := range rg.Order {
				if nd.Kind == ref.NRel {
					sig = append(sig, nd.ID+ref.FmtSet(nd.Wild))
				}
			}
			ctx.State(strings.Join(sig, " "))
			if ctx.WantSample() && behindCycle {
				ctx.Sample(map[string]any{"model": tm.Tag, "reference_wildcards": sig})
			}
		}
		return true
	}
	extra := append(append(c11Extra(), c11Many()...), c11Cycle()...)
	for j, tm := range extra {
		if ctx.Mine(j) {
			if ctx.Expired() {
				ctx.Cap("wall-clock cap in the wildcard family")
				return
			}
			wgSpecial = true
			run(j, tm)
			wgSpecial = false
		}
	}
	wgModels(ctx, func(i int, tm gen.Tagged) bool { return run(len(extra)+i, tm) })
}

func wgReplayCase(c json.RawMessage) (*wgCase, *ref.WG, *wgObs) {
	var cs wgCase
	if err := json.Unmarshal(c, &cs); err != nil {
		panic(err)
	}
	rg, o := wgReplay(&cs)
	return &cs, rg, o
}

func init() {
	core.Register(&core.Check{
		ID:        "C04",
		Rule:      wgRule + "Oracle on every accepted execution: reference type sets (least fixpoint, operand-level union/intersection/base) and weights (longest hop count in the type-relevant subgraph, Infinite iff a cycle is reachable in it) for every relation and operator node, every edge = target (+1 on hops), no R# key, no empty map. states = distinct accepted graphs, non-trivial = distinct well-founded models",
		Assume:    wgAssume,
		Technique: "exhaustive exploration of map-iteration schedules x bounded exhaustive model enumeration against a reference weight semantics",
		Run:       c04Run,
		Finish: func(r *core.Result) error {
			for _, f := range []string{"map-sites-reached", "c04:weights-agree", "c04:tuple-cycle-model"} {
				if !r.Flags[f] {
					return fmt.Errorf("C04: guard %q never exercised", f)
				}
			}
			return nil
		},
		Replay: func(ctx *core.Ctx, c json.RawMessage) {
			cs, rg, o := wgReplayCase(c)
			wf := rg.Analyse(ref.OperandWise).WellFounded
			c04One(ctx, gen.Tagged{Tag: cs.Tag, M: cs.Model}, rg, wf, o, cs.Choices, cs.Extra == "pinned")
		},
	})
	core.Register(&core.Check{
		ID: "C10",
		Rule: "structure alphabet (10 restriction lists with duplicate / mixed conditioned and unconditioned entries, wildcards and usersets x 9 rewrites incl. repeated operands, a direct assignment twice under one operator, nesting depth 3, tuplesets with repeated and conditioned parent types) plus " + wgRule +
			"Oracle on every accepted execution: ordered parallel traversal of the reference graph (one node per type, relation, referenced userset, wildcard and operator occurrence; ordered edges with kind, target, 'type#tupleset' label, ordered condition set) and the real graph; the model is compared before and after Build. states = distinct expected structures, non-trivial = distinct accepted models",
		Assume: append([]string{
			"conditions on TTU edges are not judged (the statement does not speak of them)",
			"two identical TTU operands under one operator are not generated (the statement does not say whether they share an edge)",
		}, wgAssume...),
		Technique: "bounded exhaustive model enumeration x map-iteration schedules against a reference graph construction (ordered structural bisimulation)",
		Run:       c10Run,
		Finish: func(r *core.Result) error {
			for _, f := range []string{"map-sites-reached", "c10:matched", "c10:multi-condition-edge", "c10:ttu-edge", "c10:computed-edge", "c10:wildcard-node", "c10:exclusion-node"} {
				if !r.Flags[f] {
					return fmt.Errorf("C10: guard %q never exercised", f)
				}
			}
			return nil
		},
		Replay: func(ctx *core.Ctx, c json.RawMessage) {
			cs, rg, o := wgReplayCase(c)
			if o.verdict == "accepted" {
				wgMatch(rg, o)
				if o.structErr != "" {
					ctx.Violation("structure-differs", o.structErr, cs, "", o.structErr)
				}
			}
		},
	})
	core.Register(&core.Check{
		ID: "C11",
		Rule: "wildcard alphabet (12 x 9 x 6 three-relation models with T:* restrictions in every leaf position, inside and behind tuple cycles, under intersections and exclusions) plus " + wgRule +
			"Oracle on every accepted execution of a well-founded model: node wildcard list = set of public types reachable along the real edges, edge list = target's set ({T} into T:*), no duplicates. states = distinct wildcard annotations, non-trivial = distinct models with at least one public restriction",
		Assume:    wgAssume,
		Technique: "exhaustive exploration of map-iteration schedules x bounded exhaustive model enumeration against a reachability reference",
		Run:       c11Run,
		Finish: func(r *core.Result) error {
			for _, f := range []string{"map-sites-reached", "c11:agree", "c11:wildcards-present", "c11:wildcard-on-or-behind-cycle"} {
				if !r.Flags[f] {
					return fmt.Errorf("C11: guard %q never exercised", f)
				}
			}
			return nil
		},
		Replay: func(ctx *core.Ctx, c json.RawMessage) {
			cs, rg, o := wgReplayCase(c)
			if rg.Analyse(ref.OperandWise).WellFounded && o.verdict == "accepted" {
				if d := wildDiff(rg, o); d != "" {
					ctx.Violation("wildcards-differ-from-reachability", d, cs, "", d)
				}
			}
		},
	})
}

var _ = graph.Infinite
