package checks

import (
	"encoding/json"
	"errors"
	"fmt"
	"sort"
	"strings"

	openfgav1 "github.com/openfga/api/proto/openfga/v1"

	"github.com/openfga/language/pkg/go/transformer"
	"github.com/openfga/language/pkg/go/utils"

	"verif/core"
	"verif/gen"
	"verif/ref"
	"verif/rt"
)

// Shared harness of C07, C12 and the merge part of C16.

type mergeCase struct {
	Tag     string         `json:"tag,omitempty"`
	Files   []gen.FileSpec `json:"files"`
	Order   []int          `json:"order"`
	Schema  string         `json:"schema"`
	Choices []int          `json:"choices,omitempty"`
	Style   map[string]int `json:"style,omitempty"`
	LChoice [][]int        `json:"layout_choices,omitempty"`
}

// renderedFile is a file with its text and source map.
type renderedFile struct {
	spec  gen.FileSpec
	text  string
	marks map[string]ref.Pos
}

func renderFiles(files []gen.FileSpec, style map[string]int, lchoices [][]int) []renderedFile {
	out := make([]renderedFile, len(files))
	for i, f := range files {
		out[i].spec = f
		if f.M == nil {
			out[i].text = f.Raw
			continue
		}
		var ch []int
		if i < len(lchoices) {
			ch = lchoices[i]
		}
		var r *ref.Rendered
		rt.Run(ch, nil, func() { r = ref.Render(f.M, &ref.Layout{Style: style}) })
		out[i].text = r.Text
		out[i].marks = r.Marks
	}
	return out
}

type mergeErr struct {
	Msg, File   string
	Line, LineE int
	Col, ColE   int
	Syntax      bool
}

type mergeObs struct {
	model  *openfgav1.AuthorizationModel
	err    error
	panic  any
	errs   []mergeErr
	dump   string // canonical observation
	others bool   // errors of unknown type present
}

func runMerge(files []renderedFile, order []int, schema string) *mergeObs {
	o := &mergeObs{}
	mods := make([]transformer.ModuleFile, len(order))
	for i, k := range order {
		mods[i] = transformer.ModuleFile{Name: files[k].spec.Name, Contents: files[k].text}
	}
	func() {
		defer func() {
			if p := recover(); p != nil {
				o.panic = p
			}
		}()
		o.model, o.err = transformer.TransformModuleFilesToModel(mods, schema)
	}()
	if o.panic != nil {
		o.dump = fmt.Sprintf("PANIC %v", o.panic)
		return o
	}
	if o.err == nil {
		o.dump = "OK\n" + ref.Dump(o.model, laxDump)
		return o
	}
	var sb strings.Builder
	sb.WriteString("ERR\n")
	var mv *transformer.ModuleValidationMultipleError
	if errors.As(o.err, &mv) {
		for _, e := range mv.Errors {
			var se *transformer.ModuleTransformationSingleError
			if errors.As(e, &se) {
				me := mergeErr{Msg: se.Msg, File: se.File, Line: se.Line.Start, LineE: se.Line.End, Col: se.Column.Start, ColE: se.Column.End}
				o.errs = append(o.errs, me)
				fmt.Fprintf(&sb, "%s|%s|%d-%d|%d-%d\n", me.Msg, me.File, me.Line, me.LineE, me.Col, me.ColE)
				continue
			}
			o.errs = append(o.errs, mergeErr{Msg: e.Error(), Syntax: true})
			fmt.Fprintf(&sb, "syntax|%s\n", e.Error())
		}
	} else {
		o.others = true
		fmt.Fprintf(&sb, "other|%T|%s\n", o.err, o.err.Error())
	}
	o.dump = sb.String()
	return o
}

func mergeClass(site string) string {
	if strings.HasPrefix(site, "transformer.TransformModuleFilesToModel#") {
		return "merge"
	}
	return "other"
}

// exploreMerge runs the merge of files in the given order under every map
// schedule within the budget.
func exploreMerge(ctx *core.Ctx, files []renderedFile, order []int, schema string, budget int, visit func(o *mergeObs, choices []int) bool) rt.Stats {
	// large file sets (the size sweeps): a map of n keys has ~n^2/2 single deviations per site; sets of 13 to 24 declarations
	// keep single deviations, larger ones run under the default schedule (their subject is size, and the file orders)
	decls := 0
	for _, f := range files {
		if f.spec.M != nil {
			decls += len(f.spec.M.Types) + len(f.spec.M.Conds)
			for _, t := range f.spec.M.Types {
				decls += len(t.Rels)
			}
		}
	}
	if decls > 24 {
		budget = 0
	} else if decls > 12 && budget > 1 {
		budget = 1
	}
	var o *mergeObs
	return rt.Explore(rt.Config{Class: mergeClass, Budget: map[string]int{"merge": budget, "other": 0}, MaxExec: 4000, Stop: ctx.Expired},
		func() { o = runMerge(files, order, schema) },
		func(pts []rt.Point) bool {
			ctx.Trans(1)
			if len(pts) > 0 {
				ctx.Flag("map-sites-reached")
			}
			return visit(o, rt.Choices(pts))
		})
}

func toMFiles(files []gen.FileSpec, order []int) []ref.MFile {
	out := make([]ref.MFile, len(order))
	for i, k := range order {
		out[i] = ref.MFile{Name: files[k].Name, M: files[k].M, Malformed: files[k].Malformed}
	}
	return out
}

var schemaVersions = []string{"1.2", "1.1", "", "x"}

// ---------------------------------------------------------------------------
// C07

func conflictKindOfMsg(msg string) string {
	switch {
	case strings.HasPrefix(msg, "duplicate type definition "):
		return "duplicate-type"
	case strings.HasPrefix(msg, "duplicate condition "):
		return "duplicate-condition"
	case strings.HasPrefix(msg, "extended type ") && strings.HasSuffix(msg, " does not exist"):
		return "missing-extension-target"
	case strings.HasPrefix(msg, "relation ") && strings.Contains(msg, " already exists on type "):
		return "relation-clash"
	}
	return ""
}

// conflictMsg is the message that reports exactly this conflict.
func conflictMsg(c ref.Conflict) string {
	switch c.Kind {
	case "relation-clash":
		parts := strings.SplitN(c.Name, "#", 2)
		return fmt.Sprintf("relation %s already exists on type %s", parts[1], parts[0])
	case "duplicate-type":
		return "duplicate type definition " + c.Name
	case "duplicate-condition":
		return "duplicate condition " + c.Name
	case "missing-extension-target":
		return fmt.Sprintf("extended type %s does not exist", c.Name)
	}
	return ""
}

func c07Check(ctx *core.Ctx, cs *mergeCase, o *mergeObs, want *ref.MergeOutcome) bool {
	viol := func(kind, what, exp, obs string) bool {
		ctx.Violation(kind, fmt.Sprintf("%s [order %v schema %q schedule %v]: %s", cs.Tag, cs.Order, cs.Schema, cs.Choices, what), cs, exp, obs)
		return false
	}
	if o.panic != nil {
		return viol("merge-panics", fmt.Sprintf("TransformModuleFilesToModel panicked: %v", o.panic), "error or model", fmt.Sprint(o.panic))
	}
	if want.OK != (o.err == nil) {
		exp := "success"
		if !want.OK {
			exp = fmt.Sprintf("failure: malformed=%v conflicts=%+v", want.Malformed, want.Conflicts)
		}
		return viol("merge-verdict", "success/failure differs from the reference (iff clause)", exp, o.dump)
	}
	if o.err != nil {
		ctx.Flag("c07:failure")
		if o.model != nil {
			return viol("partial-model", "a model was returned together with an error", "nil model", o.dump)
		}
		if o.others {
			return viol("error-type", "error is not a ModuleValidationMultipleError", "", o.dump)
		}
		for _, c := range want.Conflicts {
			ctx.Flag("c07:conflict:" + c.Kind)
			found := false
			for _, e := range o.errs {
				if e.Syntax || e.Msg != conflictMsg(c) {
					continue
				}
				for _, f := range c.Files {
					if e.File == f {
						found = true
					}
				}
			}
			if !found {
				return viol("conflict-not-attributed", fmt.Sprintf("no error of kind %s names a file taking part in the conflict on %s (files %v)", c.Kind, c.Name, c.Files),
					fmt.Sprintf("%+v", c), o.dump)
			}
		}
		if len(want.Malformed) > 0 {
			ctx.Flag("c07:malformed")
		}
		return true
	}
	ctx.Flag("c07:success")
	if o.model.GetSchemaVersion() != cs.Schema {
		return viol("schema-version", "schema version is not the requested one", cs.Schema, o.model.GetSchemaVersion())
	}
	exp := ref.Dump(ref.ToProto(want.Model), laxDump)
	got := strings.TrimPrefix(o.dump, "OK\n")
	if exp != got {
		return viol("merged-model", "merged model is not the exact attributed union of the declarations", exp, got)
	}
	// attribution through the utility function
	for _, t := range want.Model.Types {
		var td *openfgav1.TypeDefinition
		for _, x := range o.model.GetTypeDefinitions() {
			if x.GetType() == t.Name {
				td = x
			}
		}
		for _, r := range t.Rels {
			wantMod := r.Module
			if wantMod == "" {
				wantMod = t.Module
			} else {
				ctx.Flag("c07:extension-relation")
			}
			gm, err := utils.GetModuleForObjectTypeRelation(td, r.Name)
			if err != nil || gm != wantMod {
				return viol("relation-module", fmt.Sprintf("GetModuleForObjectTypeRelation(%s, %s) = %q, %v", t.Name, r.Name, gm, err), wantMod, gm)
			}
		}
	}
	return true
}

func c07Set(ctx *core.Ctx, i int, fs gen.FileSet, thorough bool) {
	files := renderFiles(fs.Files, nil, nil)
	for _, order := range fileOrders(len(fs.Files)) {
		versions := []string{schemaVersions[i%4]}
		if i%16 == 0 {
			versions = schemaVersions
		}
		for _, sv := range versions {
			want := ref.MergeRef(toMFiles(fs.Files, order), sv)
			cs := &mergeCase{Tag: fs.Tag, Files: fs.Files, Order: order, Schema: sv}
			budget := 1
			if thorough {
				budget = 2
			}
			ok := true
			st := exploreMerge(ctx, files, order, sv, budget, func(o *mergeObs, ch []int) bool {
				c := *cs
				c.Choices = ch
				ok = c07Check(ctx, &c, o, want)
				ctx.State(o.dump)
				return ok
			})
			if !st.Complete && ok {
				ctx.Cap("a schedule exploration hit its execution cap (4000) or the wall-clock cap")
			}
			if !ok {
				return
			}
		}
	}
	// the same sets under other layouts of the files (a rotating uniform style per set; every style for every 16th set):
	// verdict, attribution and "never a panic" must not depend on blank lines, comments, tabs or CRLF inside the files
	styles := uniformStyles()
	for si, st := range styles {
		if si == 0 || (si%len(styles) != i%len(styles) && i%16 != 0) {
			continue
		}
		lf := renderFiles(fs.Files, st, nil)
		order := identity(len(fs.Files))
		sv := schemaVersions[i%4]
		want := ref.MergeRef(toMFiles(fs.Files, order), sv)
		cs := &mergeCase{Tag: fs.Tag, Files: fs.Files, Order: order, Schema: sv, Style: st}
		ctx.Trans(1)
		if !c07Check(ctx, cs, runMerge(lf, order, sv), want) {
			return
		}
		ctx.Flag("c07:layout-style")
	}
	ctx.Nontrivial(fs.Tag)
	if ctx.WantSample() && len(fs.Files) > 1 && i%7 == 3 {
		texts := map[string]string{}
		for _, f := range files {
			texts[f.spec.Name] = f.text
		}
		ctx.Sample(map[string]any{"file_set": fs.Tag, "files": texts})
	}
}

func mergeSets(thorough bool) []gen.FileSet {
	var out []gen.FileSet
	forMergeSets(thorough, nil, func(_ int, fs gen.FileSet) { out = append(out, fs) })
	return out
}

// forMergeSets streams the file sets of a tier (numbered consecutively); a set is built only if want(i).
// quick: 2 x <= 2 (with malformed members) and 3 x <= 1; thorough adds 3 x <= 2 and 2 x <= 3 over the conflict-relevant sub-menu.
func forMergeSets(thorough bool, want func(i int) bool, f func(i int, fs gen.FileSet)) {
	base := 0
	shift := func(w func(int) bool) func(int) bool {
		if w == nil {
			return nil
		}
		b := base
		return func(i int) bool { return w(b + i) }
	}
	emit := func() func(int, gen.FileSet) {
		b := base
		return func(i int, fs gen.FileSet) { f(b+i, fs) }
	}
	base += gen.FileSetsEach(2, 2, true, shift(want), emit())
	base += gen.FileSetsEach(3, 1, false, shift(want), emit())
	base += gen.ManyExtendersEach(shift(want), emit())
	base += gen.TwoTargetsEach(shift(want), emit())
	msizes := []int{5, 13, 33}
	if thorough {
		msizes = gen.SweepSizesSmall
	}
	base += gen.SweepFileSetsEach(msizes, shift(want), emit())
	if thorough {
		base += gen.FileSetsCoreEach(3, 2, shift(want), emit())
		base += gen.FileSetsCoreEach(2, 3, shift(want), emit())
	}
}

func c07Run(ctx *core.Ctx) {
	capped := false
	forMergeSets(ctx.Thorough(), func(i int) bool { return ctx.Mine(i) && !capped }, func(i int, fs gen.FileSet) {
		if ctx.Expired() {
			ctx.Cap("wall-clock cap: not all file sets merged")
			capped = true
			return
		}
		ctx.Eval(1)
		c07Set(ctx, i, fs, ctx.Thorough())
		// the same set under ONE file name (the statement speaks of a list of files, not of distinct names)
		if len(fs.Files) >= 2 && (ctx.Thorough() || i%3 == 1) {
			same := gen.FileSet{Tag: fs.Tag + " [all files named same.fga]"}
			for _, f := range fs.Files {
				g := f
				g.Name = "same.fga"
				same.Files = append(same.Files, g)
			}
			ctx.Eval(1)
			c07Set(ctx, i, same, ctx.Thorough())
		}
	})
}

func replayMerge(c json.RawMessage) (*mergeCase, []renderedFile) {
	var cs mergeCase
	if err := json.Unmarshal(c, &cs); err != nil {
		panic(err)
	}
	return &cs, renderFiles(cs.Files, cs.Style, cs.LChoice)
}

func init() {
	core.Register(&core.Check{
		ID: "C07",
		Rule: "module file sets: 2 files x <= 2 declarations and 3 x <= 1 (quick; thorough adds 3 x <= 2 and 2 x <= 3 over the conflict-relevant sub-menu of 7 declarations) from a menu of 13 declarations " +
			"(types with/without relations, extensions with fresh / clashing / no relations, extension of an undefined type, conditions), plus sets completed by one of 7 malformed members " +
			"(model-header files with/without relations/conditions, syntax errors, module without name, type extended twice), plus the many-extenders family (four files: t1 defined without relations / with a relation / defined and extended in one file, and three files that each extend it with x, y, x and y, nothing, or mind their own type: 375 sets) and the two-targets family (one file extending two different types in either order, each with a relation the other type has, a fresh one, or its own; base types in one file or two; optionally one more extender of either type, also with the name the two-target file gives its other type: 180 sets) and size sweeps (n = 5, 13, 33 quick: n files extending one type with and without a conflict between a middle and a late one; one extension with n relations and a later file clashing with the first / middle / last / none; n extend blocks in one file; n types and n conditions with the middle one defined again; file lists longer than four in five orders instead of all; schedules: single deviations up to 24 declarations, default schedule above) x every permutation of the file list x schema versions " +
			"x map schedules of the merger's six map-iteration sites (budget 1 quick / 2 thorough); each set also with its files rendered in another uniform layout style (blank lines, comments, tabs, CRLF, extra spaces; rotating, all styles for every 16th set). Oracle: reference merge over the declarations the generator wrote. " +
			"states = distinct outcomes (models or error lists), non-trivial = distinct file sets",
		Assume: []string{
			"file names within one set are distinct",
			"'naming the offending file' is demanded for the four conflict kinds only (duplicate type, duplicate condition, missing extension target, relation clash); parse failures and 'file is not a module' carry no file field in the API",
		},
		Technique: "bounded exhaustive enumeration of file sets x file-list permutations x map-iteration schedules against a reference merge",
		Run:       c07Run,
		Finish: func(r *core.Result) error {
			for _, f := range []string{"map-sites-reached", "c07:success", "c07:failure", "c07:malformed", "c07:extension-relation", "c07:layout-style",
				"c07:conflict:duplicate-type", "c07:conflict:duplicate-condition", "c07:conflict:missing-extension-target", "c07:conflict:relation-clash"} {
				if !r.Flags[f] {
					return fmt.Errorf("C07: guard %q never exercised", f)
				}
			}
			return nil
		},
		Replay: func(ctx *core.Ctx, c json.RawMessage) {
			cs, files := replayMerge(c)
			want := ref.MergeRef(toMFiles(cs.Files, cs.Order), cs.Schema)
			var o *mergeObs
			rt.Run(cs.Choices, nil, func() { o = runMerge(files, cs.Order, cs.Schema) })
			c07Check(ctx, cs, o, want)
		},
	})
}

var _ = sort.Strings

// fileOrders: every order of up to four files; for longer lists the given order, its reversal, a rotation, a scrambled order
// and the given order with its last two files exchanged.
func fileOrders(n int) [][]int {
	if n <= 4 {
		return perms(n)
	}
	out := typePerms(n)
	sw := identity(n)
	sw[n-1], sw[n-2] = sw[n-2], sw[n-1]
	return append(out, sw)
}
