package checks

import (
	"encoding/json"
	"fmt"

	"verif/core"
	"verif/gen"
	"verif/ref"
)

// C03 — every grammatical layout of a model parses, and to exactly the model written.

func c03One(ctx *core.Ctx, r *ref.Rendered, lc *layoutCase) {
	ctx.Trans(1)
	m := lc.Model
	want := ref.Dump(ref.ToProto(m), laxDump)
	modular := m.Module != ""
	entries := []bool{true}
	if !modular {
		entries = []bool{false, true}
	}
	for _, viaModular := range entries {
		got, _, err, pn := parseDoc(r.Text, viaModular)
		name := "TransformDSLToProto"
		if viaModular {
			name = "TransformModularDSLToProto"
		}
		c := *lc
		c.Text = r.Text
		c.Extra = name
		if pn != nil {
			ctx.Violation("layout-panic", fmt.Sprintf("%s panicked on a grammatical layout: %v", name, pn), c, "no panic", fmt.Sprint(pn))
			return
		}
		if err != nil {
			ctx.Violation("layout-rejected", fmt.Sprintf("%s rejected a grammatical layout of %s: %v\n%s", name, lc.Tag, err, r.Text), c, "accepted", err.Error())
			return
		}
		gd := ref.Dump(got, laxDump)
		if gd != want {
			ctx.Violation("layout-changes-model", fmt.Sprintf("%s: layout of %s parsed to a different model\n%s", name, lc.Tag, r.Text), c, want, gd)
			return
		}
		ctx.State(gd)
	}
	ctx.Nontrivial(r.Text)
	if ctx.WantSample() && len(lc.Choices) > 0 {
		ctx.Sample(map[string]any{"model": lc.Tag, "style": lc.Style, "layout_choices": lc.Choices, "text": r.Text})
	}
}

func c03Run(ctx *core.Ctx) {
	// size sweeps first (cheap, carry their own guard): canonical layout and every uniform style
	for i, tm := range gen.SweepModelsDSL(sweepSizes(ctx)) {
		if !ctx.Mine(1<<26 + i) {
			continue
		}
		if ctx.Expired() {
			ctx.Cap("wall-clock cap in the size sweeps")
			break
		}
		ctx.Eval(1)
		forLayouts(ctx, tm.Tag, tm.M, 0, 0, func(r *ref.Rendered, lc *layoutCase) { c03One(ctx, r, lc); ctx.Flag("c03:sweeps") })
	}
	models := gen.DSLModels(ctx.Thorough())
	for i, tm := range models {
		if !ctx.Mine(i) {
			continue
		}
		if ctx.Expired() {
			ctx.Cap("wall-clock cap: not all models rendered")
			break
		}
		ctx.Eval(1)
		dev, sdev := 1, 0
		if ctx.Thorough() {
			sdev = 1
			if tm.M.Module == "" && len(tm.M.Types) <= 2 && modelSize(tm.M) <= 3 {
				dev = 2
			}
		} else if modelSize(tm.M) <= 2 && i%4 == 0 {
			dev = 2
		}
		if tm.M.Module != "" {
			ctx.Flag("module-file")
		} else {
			ctx.Flag("model-file")
		}
		forLayouts(ctx, tm.Tag, tm.M, dev, sdev, func(r *ref.Rendered, lc *layoutCase) { c03One(ctx, r, lc) })
	}
}

// modelSize is the number of relations plus conditions.
func modelSize(m *ref.Model) int {
	n := len(m.Conds)
	for _, t := range m.Types {
		n += len(t.Rels)
	}
	return n
}

func init() {
	core.Register(&core.Check{
		ID: "C03",
		Rule: "size sweeps (one dimension of a model - operands of a union/intersection, relations of a type, types, conditions, parameters of a condition cycling through all 24 types, entries of a restriction list - scaled through 11 (quick) / 26 (thorough) sizes between 4 and 128 around the thresholds sorting and buffering code commonly has, contents in scrambled order; names of 64..1100 characters; one-line condition expressions of 300..4200 characters; declarations before and after the large part) under the canonical layout and every uniform style; models from the generator families (all DSL-conform rewrite shapes up to 3/4 leaves, every identifier class in every grammatical position, " +
			"all restriction lists up to length 2/3, all 24 parameter types, expression alphabet, unsorted multi-type models, module files) x renderings: " +
			"canonical layout with every single deviation (pairs on tiny models), every uniform style (one alternative at all sites of a kind; thorough: plus every single deviation on top). " +
			"Each text is parsed by TransformDSLToProto and TransformModularDSLToProto and compared with the model that was written. " +
			"states = distinct parsed models, non-trivial = distinct texts accepted",
		Assume: []string{
			"the renderer's layout sites are those of OpenFGAParser.g4/OpenFGALexer.g4 listed in DESIGN.md 3/C03; NEWLINE between condition parameters, tab-indented comment lines and trailing comments inside condition bodies are not generated",
			"condition expressions come from a fixed alphabet of 11 texts without '#', '}' and the word 'condition'",
		},
		Technique: "bounded exhaustive enumeration of models x layouts (deviation-bounded DFS over layout choice points) against an independent renderer/AST reference",
		Run:       c03Run,
		Finish: func(r *core.Result) error {
			if !r.Flags["c03:sweeps"] {
				return fmt.Errorf("C03: size sweeps never exercised")
			}
			if !r.Flags["module-file"] || !r.Flags["model-file"] {
				return fmt.Errorf("C03: model and module files must both be exercised")
			}
			return layoutGuards(r)
		},
		Replay: func(ctx *core.Ctx, c json.RawMessage) {
			var lc layoutCase
			if err := json.Unmarshal(c, &lc); err != nil {
				panic(err)
			}
			c03One(ctx, renderCase(&lc), &lc)
		},
	})
}
