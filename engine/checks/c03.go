package checks

import (
	"encoding/json"
	"fmt"
	"strconv"
	"strings"

	"verif/core"
	"verif/gen"
	"verif/ref"
)

// C03 — every grammatical layout of a model parses, and to exactly the model written.

func c03One(ctx *core.Ctx, r *ref.Rendered, lc *layoutCase) {
	ctx.Trans(1)
	m := lc.Model
	want := ref.Dump(ref.ToProto(m), laxDump)
	modular := m.Module != ""
	entries := []bool{true}
	if !modular {
		entries = []bool{false, true}
	}
	for _, viaModular := range entries {
		got, _, err, pn := parseDoc(r.Text, viaModular)
		name := "TransformDSLToProto"
		if viaModular {
			name = "TransformModularDSLToProto"
		}
		c := *lc
		c.Text = r.Text
		c.Extra = name
		if pn != nil {
			ctx.Violation("layout-panic", fmt.Sprintf("%s panicked on a grammatical layout: %v", name, pn), c, "no panic", fmt.Sprint(pn))
			return
		}
		if err != nil {
			ctx.Violation("layout-rejected", fmt.Sprintf("%s rejected a grammatical layout of %s: %v\n%s", name, lc.Tag, err, r.Text), c, "accepted", err.Error())
			return
		}
		gd := ref.Dump(got, laxDump)
		if gd != want {
			ctx.Violation("layout-changes-model", fmt.Sprintf("%s: layout of %s parsed to a different model\n%s", name, lc.Tag, r.Text), c, want, gd)
			return
		}
		ctx.State(gd)
	}
	ctx.Nontrivial(r.Text)
	if ctx.WantSample() && len(lc.Choices) > 0 {
		ctx.Sample(map[string]any{"model": lc.Tag, "style": lc.Style, "layout_choices": lc.Choices, "text": r.Text})
	}
}

// longLineCase is one document with a very long physical line: line-reading code with a token limit (bufio.Scanner: 64 KiB) or
// a fixed buffer drops or truncates such a line, silently or with an error, although it is an ordinary comment, blank line or
// list. kind/n are replayable.
func longLineCase(kind string, n int) (*ref.Model, string) {
	base := &ref.Model{Schema: "1.1", Types: []ref.TypeDef{{Name: "user"}, {Name: "group", Rels: []ref.Relation{{Name: "member", Rw: ref.T(), Restr: []ref.Restriction{{Type: "user"}}}}},
		{Name: "doc", Rels: []ref.Relation{{Name: "viewer", Rw: ref.U(ref.T(), ref.C("editor")), Restr: []ref.Restriction{{Type: "user"}}}, {Name: "editor", Rw: ref.T(), Restr: []ref.Restriction{{Type: "user"}}}}}},
		Conds: []ref.Condition{{Name: "c", Params: []ref.Param{{Name: "x", Type: "int"}}, Expr: "x < 100"}}}
	if kind == "restrictions" {
		alpha := []ref.Restriction{{Type: "user"}, {Type: "group", Relation: "member"}, {Type: "user", Wildcard: true}, {Type: "user", Condition: "c"}}
		var rs []ref.Restriction
		for i := 0; i < n; i++ {
			rs = append(rs, alpha[(i*7)%len(alpha)])
		}
		base.Types[2].Rels[1].Restr = rs
		return base, ref.Render(base, nil).Text
	}
	lines := strings.Split(ref.Render(base, nil).Text, "\n")
	at := 0
	for i, l := range lines {
		if strings.HasPrefix(l, "type group") {
			at = i
		}
	}
	pad := strings.Repeat("long comment ", n/13+1)[:n]
	switch kind {
	case "full-line-comment":
		lines = append(lines[:at], append([]string{"# " + pad}, lines[at:]...)...)
	case "trailing-comment":
		lines[at] += " # " + pad
	case "blank-line":
		lines = append(lines[:at], append([]string{strings.Repeat(" ", n)}, lines[at:]...)...)
	case "trailing-blanks":
		lines[at] += strings.Repeat(" ", n)
	case "first-line-comment":
		lines = append([]string{"# " + pad}, lines...)
	case "last-line-comment":
		for len(lines) > 0 && lines[len(lines)-1] == "" {
			lines = lines[:len(lines)-1]
		}
		lines = append(lines, "# "+pad)
	default:
		panic("longLineCase: " + kind)
	}
	return base, strings.Join(lines, "\n")
}

var longLineKinds = []string{"full-line-comment", "trailing-comment", "blank-line", "trailing-blanks", "first-line-comment", "last-line-comment"}

func c03LongLines(ctx *core.Ctx) {
	sizes := []int{1023, 1024, 4095, 4096, 4097, 65533, 65534, 65535, 65536, 65537, 70000, 131072, 1<<20 + 1}
	k := 0
	run := func(kind string, n int) {
		k++
		if !ctx.Mine(1<<27 + k) {
			return
		}
		m, text := longLineCase(kind, n)
		ctx.Eval(1)
		lc := &layoutCase{Tag: fmt.Sprintf("longline:%s:%d", kind, n), Model: m}
		c03One(ctx, &ref.Rendered{Text: text}, lc)
		ctx.Flag("c03:long-lines")
	}
	for _, kind := range longLineKinds {
		for _, n := range sizes {
			run(kind, n)
		}
	}
	for _, n := range []int{200, 5000, 9000, 20000} {
		run("restrictions", n)
	}
}

func c03Run(ctx *core.Ctx) {
	c03LongLines(ctx)
	// size sweeps first (cheap, carry their own guard): canonical layout and every uniform style
	for i, tm := range gen.SweepModelsDSL(sweepSizes(ctx)) {
		if !ctx.Mine(1<<26 + i) {
			continue
		}
		if ctx.Expired() {
			ctx.Cap("wall-clock cap in the size sweeps")
			break
		}
		ctx.Eval(1)
		forLayouts(ctx, tm.Tag, tm.M, 0, 0, func(r *ref.Rendered, lc *layoutCase) { c03One(ctx, r, lc); ctx.Flag("c03:sweeps") })
	}
	models := gen.DSLModels(ctx.Thorough())
	for i, tm := range models {
		if !ctx.Mine(i) {
			continue
		}
		if ctx.Expired() {
			ctx.Cap("wall-clock cap: not all models rendered")
			break
		}
		ctx.Eval(1)
		dev, sdev := 1, 0
		if ctx.Thorough() {
			sdev = 1
			if tm.M.Module == "" && len(tm.M.Types) <= 2 && modelSize(tm.M) <= 3 {
				dev = 2
			}
		} else if modelSize(tm.M) <= 2 && i%4 == 0 {
			dev = 2
		}
		if tm.M.Module != "" {
			ctx.Flag("module-file")
		} else {
			ctx.Flag("model-file")
		}
		forLayouts(ctx, tm.Tag, tm.M, dev, sdev, func(r *ref.Rendered, lc *layoutCase) { c03One(ctx, r, lc) })
	}
}

// modelSize is the number of relations plus conditions.
func modelSize(m *ref.Model) int {
	n := len(m.Conds)
	for _, t := range m.Types {
		n += len(t.Rels)
	}
	return n
}

func init() {
	core.Register(&core.Check{
		ID: "C03",
		Rule: "long physical lines (a full-line comment, a trailing comment, a blank line, trailing blanks, a comment on the first and on the last line of 1023..65537, 70000, 131072 and 1048577 bytes; a one-line restriction list of 200..20000 entries) in a four-type model; size sweeps (one dimension of a model - operands of a union/intersection, relations of a type, types, conditions, parameters of a condition cycling through all 24 types, entries of a restriction list - scaled through 11 (quick) / 26 (thorough) sizes between 4 and 128 around the thresholds sorting and buffering code commonly has, contents in scrambled order; names of 64..1100 characters; one-line condition expressions of 300..4200 characters; declarations before and after the large part) under the canonical layout and every uniform style; models from the generator families (all DSL-conform rewrite shapes up to 3/4 leaves, every identifier class in every grammatical position, " +
			"all restriction lists up to length 2/3, all 24 parameter types, expression alphabet, unsorted multi-type models, module files) x renderings: " +
			"canonical layout with every single deviation (pairs on tiny models), every uniform style (one alternative at all sites of a kind; thorough: plus every single deviation on top). " +
			"Each text is parsed by TransformDSLToProto and TransformModularDSLToProto and compared with the model that was written. " +
			"states = distinct parsed models, non-trivial = distinct texts accepted",
		Assume: []string{
			"the renderer's layout sites are those of OpenFGAParser.g4/OpenFGALexer.g4 listed in DESIGN.md 3/C03; NEWLINE between condition parameters, tab-indented comment lines and trailing comments inside condition bodies are not generated",
			"condition expressions come from a fixed alphabet of 11 texts without '#', '}' and the word 'condition'",
		},
		Technique: "bounded exhaustive enumeration of models x layouts (deviation-bounded DFS over layout choice points) against an independent renderer/AST reference",
		Run:       c03Run,
		Finish: func(r *core.Result) error {
			if !r.Flags["c03:long-lines"] {
				return fmt.Errorf("C03: long physical lines never exercised")
			}
			if !r.Flags["c03:sweeps"] {
				return fmt.Errorf("C03: size sweeps never exercised")
			}
			if !r.Flags["module-file"] || !r.Flags["model-file"] {
				return fmt.Errorf("C03: model and module files must both be exercised")
			}
			return layoutGuards(r)
		},
		Replay: func(ctx *core.Ctx, c json.RawMessage) {
			var lc layoutCase
			if err := json.Unmarshal(c, &lc); err != nil {
				panic(err)
			}
			if strings.HasPrefix(lc.Tag, "longline:") {
				f := strings.Split(lc.Tag, ":")
				n, _ := strconv.Atoi(f[2])
				m, text := longLineCase(f[1], n)
				lc.Model = m
				c03One(ctx, &ref.Rendered{Text: text}, &lc)
				return
			}
			c03One(ctx, renderCase(&lc), &lc)
		},
	})
}
