package checks

import (
	"encoding/json"
	"fmt"
	"regexp"
	"strconv"
	"strings"
	"unicode/utf8"

	"github.com/hashicorp/go-multierror"

	"verif/core"
	"verif/gen"
	"verif/ref"
)

// C16 — reported error positions always lie inside the input and on the offending text.

type synErr struct {
	Line, Col int
	Msg       string
}

var synRe = regexp.MustCompile(`^syntax error at line=(-?\d+), column=(-?\d+): (?s)(.*)$`)

// syntaxErrors extracts (line, column, message) of every DSL syntax error from
// the public error value.
func syntaxErrors(err error) (out []synErr, unparsed int) {
	var me *multierror.Error
	list := []error{err}
	if e, ok := err.(*multierror.Error); ok {
		me = e
		list = me.Errors
	}
	for _, e := range list {
		m := synRe.FindStringSubmatch(e.Error())
		if m == nil {
			unparsed++
			continue
		}
		l, _ := strconv.Atoi(m[1])
		c, _ := strconv.Atoi(m[2])
		out = append(out, synErr{l, c, m[3]})
	}
	return
}

type c16Case struct {
	Text   string      `json:"text,omitempty"`
	Layout *layoutCase `json:"layout,omitempty"`
	Mark   string      `json:"mark,omitempty"`
	Merge  *mergeCase  `json:"merge,omitempty"`
}

// c16Bounds: every syntax error of a rejected text lies inside the text.
func c16Bounds(ctx *core.Ctx, text string) {
	ctx.Trans(1)
	_, _, err, pn := parseDoc(text, true)
	if pn != nil || err == nil {
		if err == nil {
			ctx.Flag("c16:accepted-text")
		}
		return // panics are C08's business
	}
	errs, unparsed := syntaxErrors(err)
	lines := strings.Split(text, "\n")
	for _, e := range errs {
		ok := e.Line >= 0 && e.Line < len(lines) && e.Col >= 0
		if ok && e.Col > utf8.RuneCountInString(lines[e.Line]) {
			ok = false
		}
		if !ok {
			ctx.Violation("position-outside-input", fmt.Sprintf("syntax error position line=%d column=%d lies outside the input (%d lines): %q -> %s", e.Line, e.Col, len(lines), text, e.Msg),
				c16Case{Text: text}, fmt.Sprintf("0 <= line < %d, 0 <= column <= len(line)", len(lines)), fmt.Sprintf("line=%d column=%d", e.Line, e.Col))
			return
		}
	}
	if unparsed > 0 {
		ctx.Count("errors_without_position_text", unparsed)
	}
	ctx.Flag("c16:rejected-text")
	ctx.State(fmt.Sprintf("%d errors", len(errs)))
}

var c16Msg = map[string]*regexp.Regexp{
	"duplicate-relation":  regexp.MustCompile(`^'.*' is already defined in '.*'$`),
	"duplicate-condition": regexp.MustCompile(`^condition '.*' is already defined in the model$`),
	"duplicate-parameter": regexp.MustCompile(`^parameter '.*' is already defined in the condition '.*'$`),
	"extend-in-model":     regexp.MustCompile(`^extend can only be used in a modular model$`),
	"extended-twice":      regexp.MustCompile(`^'.*' is already extended in file\.$`),
}

// c16Exact: a listener-level injection must be reported at the offending name.
func c16Exact(ctx *core.Ctx, kind, mark string, r *ref.Rendered, lc *layoutCase) {
	ctx.Trans(1)
	_, _, err, pn := parseDoc(r.Text, true)
	c := *lc
	c.Text = r.Text
	c.Extra = kind
	cs := c16Case{Layout: &c, Mark: mark}
	if pn != nil || err == nil {
		return // C09 reports acceptance, C08 panics
	}
	errs, _ := syntaxErrors(err)
	want, ok := r.Marks[mark]
	if !ok {
		panic("c16: renderer did not record mark " + mark)
	}
	found := false
	for _, e := range errs {
		if !c16Msg[kind].MatchString(e.Msg) {
			continue
		}
		found = true
		if e.Line != want.Line || e.Col != want.Col {
			ctx.Violation("position-not-on-offending-name",
				fmt.Sprintf("%s: the %s error points at line=%d column=%d, the offending name stands at line=%d column=%d\n%s", lc.Tag, kind, e.Line, e.Col, want.Line, want.Col, r.Text),
				cs, fmt.Sprintf("line=%d column=%d", want.Line, want.Col), fmt.Sprintf("line=%d column=%d", e.Line, e.Col))
			return
		}
	}
	if !found {
		ctx.Violation("listener-error-missing", fmt.Sprintf("%s: no %s error among %v\n%s", lc.Tag, kind, errs, r.Text), cs, kind+" error", fmt.Sprint(errs))
		return
	}
	ctx.Flag("c16:exact:" + kind)
	if ctx.WantSample() && len(lc.Choices) > 0 {
		ctx.Sample(map[string]any{"kind": "exact position of " + kind, "text": r.Text, "offending_name_at": []int{want.Line, want.Col}})
	}
	ctx.Nontrivial(r.Text)
	ctx.State(kind)
}

// c16Merge: every conflict error names a file holding the conflict and the line of a conflicting declaration.
func c16Merge(ctx *core.Ctx, cs *mergeCase, files []renderedFile) {
	want := ref.MergeRef(toMFiles(cs.Files, cs.Order), cs.Schema)
	if len(want.Malformed) > 0 || len(want.Conflicts) == 0 {
		return
	}
	o := runMerge(files, cs.Order, cs.Schema)
	ctx.Trans(1)
	if o.panic != nil {
		ctx.Violation("merge-panics", fmt.Sprintf("%s [order %v]: the merge panicked where a located conflict error is due: %v", cs.Tag, cs.Order, o.panic), c16Case{Merge: cs}, "conflict error with file and line", fmt.Sprint(o.panic))
		return
	}
	if o.err == nil {
		return // C07's business
	}
	byName := map[string]*renderedFile{}
	for i := range files {
		byName[files[i].spec.Name] = &files[i]
	}
	for _, e := range o.errs {
		if e.Syntax {
			continue
		}
		kind := conflictKindOfMsg(e.Msg)
		if kind == "" {
			continue
		}
		// the conflict this error is about: same kind, name occurring in the message
		var match *ref.Conflict
		for ci := range want.Conflicts {
			c := &want.Conflicts[ci]
			if c.Kind != kind {
				continue
			}
			name := c.Name
			ok := false
			switch kind {
			case "relation-clash":
				parts := strings.SplitN(name, "#", 2)
				ok = e.Msg == fmt.Sprintf("relation %s already exists on type %s", parts[1], parts[0])
			case "duplicate-type":
				ok = e.Msg == "duplicate type definition "+name
			case "duplicate-condition":
				ok = e.Msg == "duplicate condition "+name
			case "missing-extension-target":
				ok = e.Msg == fmt.Sprintf("extended type %s does not exist", name)
			}
			if ok {
				match = c
			}
		}
		cc := c16Case{Merge: cs}
		if match == nil {
			// a secondary error (e.g. a relation clash against one of two definitions of a duplicated type):
			// the reference names no declaration for it, so its position is not judged
			ctx.Count("secondary_merge_errors_not_judged", 1)
			continue
		}
		okPos := false
		var wantLines []string
		for _, d := range match.Decls {
			rf := byName[d.File]
			pos, ok := rf.marks[d.Mark]
			if !ok {
				panic("c16: no mark " + d.Mark + " in " + d.File)
			}
			wantLines = append(wantLines, fmt.Sprintf("%s:%d", d.File, pos.Line))
			if e.File == d.File && e.Line == pos.Line {
				okPos = true
			}
		}
		if !okPos {
			texts := ""
			for _, f := range files {
				texts += "--- " + f.spec.Name + "\n" + f.text + "\n"
			}
			ctx.Violation("merge-error-position", fmt.Sprintf("%s [order %v]: %q is reported at %s:%d, the conflicting declarations stand at %v\n%s", cs.Tag, cs.Order, e.Msg, e.File, e.Line, wantLines, texts),
				cc, strings.Join(wantLines, " or "), fmt.Sprintf("%s:%d", e.File, e.Line))
			return
		}
		ctx.Flag("c16:merge:" + kind)
	}
	ctx.State(o.dump)
}

// c16MergeSets: conflict sets with declarations that share name prefixes and
// same-named relations in other types, to hit look-alike lines.
func c16MergeSets() []gen.FileSet {
	u := []ref.Restriction{{Type: "user"}}
	r := func(n string) ref.Relation { return ref.Relation{Name: n, Rw: ref.T(), Restr: u} }
	cond := func(n string) ref.Condition {
		return ref.Condition{Name: n, Params: []ref.Param{{Name: "x", Type: "int"}}, Expr: "x < 100"}
	}
	mk := func(tag string, a, b *ref.Model) gen.FileSet {
		return gen.FileSet{Tag: tag, Files: []gen.FileSpec{{Name: "a.fga", M: a}, {Name: "b.fga", M: b}}}
	}
	var sets []gen.FileSet
	// systematic look-alikes: the conflicting name continued or preceded by every character an (extended) identifier may hold,
	// declared on an earlier line of the same file - and, as a control, on a later one
	ext := []string{"s", "2", "X", "_x", "-x", ".x", "/x", "-", "_"}
	pre := []string{"x", "x_", "x-", "x.", "x/", "_"}
	alike := func(n string, extended bool) []string {
		var out []string
		for _, e := range ext {
			if extended || !strings.ContainsAny(e, "./") {
				out = append(out, n+e)
			}
		}
		for _, e := range pre {
			if extended || !strings.ContainsAny(e, "./") {
				out = append(out, e+n)
			}
		}
		return append(out, strings.ToUpper(n[:1])+n[1:])
	}
	for _, before := range []bool{true, false} {
		ord := func(look, real ref.TypeDef) []ref.TypeDef {
			if before {
				return []ref.TypeDef{look, real}
			}
			return []ref.TypeDef{real, look}
		}
		tg := "after"
		if before {
			tg = "before"
		}
		for _, l := range alike("user", true) {
			sets = append(sets, mk("alike-dup-type:"+l+":"+tg,
				&ref.Model{Module: "ma", Types: []ref.TypeDef{{Name: "user"}, {Name: "doc", Rels: []ref.Relation{r("viewer")}}}},
				&ref.Model{Module: "mb", Types: ord(ref.TypeDef{Name: l}, ref.TypeDef{Name: "user"})}))
			sets = append(sets, mk("alike-missing-target:"+l+":"+tg,
				&ref.Model{Module: "ma", Types: []ref.TypeDef{{Name: l, Rels: []ref.Relation{r("viewer")}}}},
				&ref.Model{Module: "mb", Types: ord(ref.TypeDef{Name: l, Extend: true, Rels: []ref.Relation{r("editor")}}, ref.TypeDef{Name: "user", Extend: true, Rels: []ref.Relation{r("editor")}})}))
		}
		for _, l := range alike("viewer", true) {
			rels := []ref.Relation{r(l), r("viewer")}
			if !before {
				rels = []ref.Relation{r("viewer"), r(l)}
			}
			sets = append(sets, mk("alike-relation-clash:"+l+":"+tg,
				&ref.Model{Module: "ma", Types: []ref.TypeDef{{Name: "user"}, {Name: "doc", Rels: []ref.Relation{r("viewer")}}}},
				&ref.Model{Module: "mb", Types: []ref.TypeDef{{Name: "doc", Extend: true, Rels: rels}}}))
		}
		for _, l := range alike("cnd", false) {
			cs := []ref.Condition{cond(l), cond("cnd")}
			if !before {
				cs = []ref.Condition{cond("cnd"), cond(l)}
			}
			sets = append(sets, mk("alike-dup-condition:"+l+":"+tg,
				&ref.Model{Module: "ma", Types: []ref.TypeDef{{Name: "user"}}, Conds: []ref.Condition{cond("cnd")}},
				&ref.Model{Module: "mb", Conds: cs}))
		}
	}
	// the conflicting name in another role on an earlier line: a relation, a restriction, a condition named like the type
	sets = append(sets, mk("alike-roles-dup-type",
		&ref.Model{Module: "ma", Types: []ref.TypeDef{{Name: "user"}}},
		&ref.Model{Module: "mb", Types: []ref.TypeDef{{Name: "doc", Rels: []ref.Relation{{Name: "user", Rw: ref.T(), Restr: []ref.Restriction{{Type: "doc", Relation: "user"}}}, {Name: "type", Rw: ref.C("user")}}}, {Name: "user"}},
			Conds: nil}))
	sets = append(sets, mk("alike-roles-relation-clash",
		&ref.Model{Module: "ma", Types: []ref.TypeDef{{Name: "user"}, {Name: "viewer", Rels: []ref.Relation{r("viewer")}}}},
		&ref.Model{Module: "mb", Types: []ref.TypeDef{{Name: "define", Rels: []ref.Relation{{Name: "x", Rw: ref.T(), Restr: []ref.Restriction{{Type: "viewer", Relation: "viewer"}}}}},
			{Name: "viewer", Extend: true, Rels: []ref.Relation{{Name: "define", Rw: ref.T(), Restr: u}, r("viewer")}}}}))
	// keywords used as type names inside a restriction list that is spread over several lines: under the layout style that puts
	// every restriction on a line of its own, lines of the extend block begin with the words type / extend / module / model (the keywords the grammar admits as names)
	kw := []ref.Restriction{{Type: "type"}, {Type: "extend", Wildcard: true}, {Type: "module", Relation: "relation"}, {Type: "model"}, {Type: "user"}}
	kwTypes := []ref.TypeDef{{Name: "user"}, {Name: "type"}, {Name: "extend"}, {Name: "module", Rels: []ref.Relation{r("relation")}}, {Name: "model"}, {Name: "doc", Rels: []ref.Relation{r("viewer")}}}
	sets = append(sets, mk("alike-keyword-named-types-in-restrictions-before-clash",
		&ref.Model{Module: "ma", Types: kwTypes},
		&ref.Model{Module: "mb", Types: []ref.TypeDef{{Name: "doc", Extend: true, Rels: []ref.Relation{{Name: "editor", Rw: ref.T(), Restr: kw}, r("viewer")}}}}))
	sets = append(sets, mk("alike-keyword-named-types-in-restrictions-before-dup-type",
		&ref.Model{Module: "ma", Types: kwTypes},
		&ref.Model{Module: "mb", Types: []ref.TypeDef{{Name: "folder", Rels: []ref.Relation{{Name: "editor", Rw: ref.T(), Restr: kw}}}, {Name: "user"}}}))
	return append(sets,
		mk("dup-type-with-longer-named-type-before",
			&ref.Model{Module: "ma", Types: []ref.TypeDef{{Name: "user"}, {Name: "doc", Rels: []ref.Relation{r("viewer")}}}},
			&ref.Model{Module: "mb", Types: []ref.TypeDef{{Name: "users"}, {Name: "user-group"}, {Name: "user"}}}),
		mk("dup-condition-with-longer-named-condition-before",
			&ref.Model{Module: "ma", Types: []ref.TypeDef{{Name: "user"}}, Conds: []ref.Condition{cond("c")}},
			&ref.Model{Module: "mb", Conds: []ref.Condition{cond("c2"), cond("c_other"), cond("c")}}),
		mk("missing-target-with-longer-named-extension-before",
			&ref.Model{Module: "ma", Types: []ref.TypeDef{{Name: "user"}, {Name: "docs", Rels: []ref.Relation{r("viewer")}}}},
			&ref.Model{Module: "mb", Types: []ref.TypeDef{{Name: "docs", Extend: true, Rels: []ref.Relation{r("editor")}}, {Name: "doc", Extend: true, Rels: []ref.Relation{r("editor")}}}}),
		mk("relation-clash-with-same-relation-in-other-type-before",
			&ref.Model{Module: "ma", Types: []ref.TypeDef{{Name: "user"}, {Name: "doc", Rels: []ref.Relation{r("viewer")}}, {Name: "folder", Rels: []ref.Relation{r("owner")}}}},
			&ref.Model{Module: "mb", Types: []ref.TypeDef{
				{Name: "other", Rels: []ref.Relation{r("viewer"), r("viewers")}},
				{Name: "folder", Extend: true, Rels: []ref.Relation{r("viewer")}},
				{Name: "doc", Extend: true, Rels: []ref.Relation{r("viewer_2"), r("viewer")}}}}),
	)
}

func c16Run(ctx *core.Ctx) {
	// (1) bounds: all lexeme strings in every context
	k := 3
	if ctx.Thorough() {
		k = 4
	}
	base := 0
	for ci, cx := range gen.DSLContexts {
		for n := 0; n <= k; n++ {
			alpha := gen.DSLLexemes
			if n == 4 {
				alpha = gen.DSLLexemesSmall
			}
			if ctx.Expired() {
				ctx.Cap(fmt.Sprintf("wall-clock cap in lexeme enumeration (context %d, length %d)", ci, n))
				break
			}
			gen.LexemeStrings(alpha, n, func(i int, s string) {
				if ctx.Mine(base + i) {
					ctx.Eval(1)
					c16Bounds(ctx, cx+s)
				}
			})
			base += gen.Pow(len(alpha), n)
		}
	}
	// (1b) bounds on the shared test-data corpus and its single mutations (quick: every 12th document)
	cbase := 1 << 26
	for di, d := range gen.Corpus(RepoRoot()) {
		if ctx.Expired() {
			ctx.Cap("wall-clock cap in corpus mutations")
			break
		}
		if ctx.Mine(di) {
			ctx.Eval(1)
			c16Bounds(ctx, d.Text)
		}
		if (!ctx.Thorough() && di%12 != 5) || len(d.Text) > 6000 {
			continue
		}
		gen.CorpusMutations(d.Text, gen.DSLLexemesSmall, func(i int, s string) {
			if ctx.Mine(cbase + i) {
				ctx.Eval(1)
				c16Bounds(ctx, s)
				ctx.Flag("c16:corpus-mutations")
			}
		})
		cbase += 1 << 18
	}
	// (2) exact positions of listener-level errors, under layouts
	kk := 0
	for _, b := range c09Bases(false) {
		for _, inj := range gen.Injections(b) {
			if inj.Mark == "" {
				continue
			}
			kk++
			if !ctx.Mine(kk) {
				continue
			}
			if ctx.Expired() {
				ctx.Cap("wall-clock cap in exact-position enumeration")
				break
			}
			ctx.Eval(1)
			dev := 0
			if ctx.Thorough() || kk%3 == 0 {
				dev = 1
			}
			inj := inj
			forLayouts(ctx, inj.Tag, inj.M, dev, 0, func(r *ref.Rendered, lc *layoutCase) { c16Exact(ctx, inj.Kind, inj.Mark, r, lc) })
		}
	}
	// (2b) the same far down a large document: every injection with a known position into a small tail behind a size sweep
	// (line numbers of two to four digits, columns behind names of a thousand characters)
	sweepTailInjections([]int{13, 65, 100}, func(k int, tag, kind, mark string, m *ref.Model) bool {
		if mark == "" || !ctx.Mine(k) {
			return true
		}
		if ctx.Expired() {
			ctx.Cap("wall-clock cap in the size sweeps")
			return false
		}
		ctx.Eval(1)
		forLayouts(ctx, tag, m, 0, 0, func(r *ref.Rendered, lc *layoutCase) { c16Exact(ctx, kind, mark, r, lc); ctx.Flag("c16:sweeps") })
		return true
	})
	// (3) merge conflicts: file + line, under layouts of the files
	sets := c16MergeSets()
	for _, fs := range mergeSets(false) {
		sets = append(sets, fs)
	}
	for i, fs := range sets {
		if !ctx.Mine(i) {
			continue
		}
		hasConflict := false
		for _, order := range fileOrders(len(fs.Files)) {
			w := ref.MergeRef(toMFiles(fs.Files, order), "1.2")
			if len(w.Malformed) == 0 && len(w.Conflicts) > 0 {
				hasConflict = true
			}
		}
		if !hasConflict {
			continue
		}
		if ctx.Expired() {
			ctx.Cap("wall-clock cap in merge-position enumeration")
			break
		}
		ctx.Eval(1)
		special := i < len(c16MergeSets())
		for _, order := range fileOrders(len(fs.Files)) {
			for si, st := range uniformStyles() {
				if !special && !ctx.Thorough() && si%8 != i%8 && si != 0 {
					continue // quick: canonical plus a rotating eighth of the styles for the generic sets
				}
				cs := &mergeCase{Tag: fs.Tag, Files: fs.Files, Order: order, Schema: "1.2", Style: st}
				c16Merge(ctx, cs, renderFiles(fs.Files, st, nil))
			}
		}
	}
}

func init() {
	core.Register(&core.Check{
		ID: "C16",
		Rule: "(2b) every injection with a known position into a small tail that follows a size-sweep model (sizes 13, 65, 100; names of 1100 characters; line numbers of two to four digits); (bounds) every string of <= 3 lexemes (thorough: 4 over a reduced alphabet) over a 38-lexeme DSL alphabet appended to each of 10 valid document prefixes; every syntax error of a rejected string must lie inside the input; the same for every DSL text of the shared test-data corpus and all its single mutations (quick: every 12th document). " +
			"(exact) every listener-level injection (duplicate relation/condition/parameter, extend in a model, type extended twice) at every site x renderings (uniform styles, single deviations for every 3rd / all) - the error must stand on the offending name given by the renderer's source map. " +
			"(merge) every conflict-carrying file set of C07 plus the look-alike sets (per conflict kind the conflicting name continued or preceded by every character an extended identifier may hold - s 2 X _ - . / - declared before and after the conflict; the name in other roles; same-named relations of other types placed before the conflict) x file orders x layout styles - File and Line must be those of a conflicting declaration. " +
			"states = distinct error signatures, non-trivial = distinct injected texts",
		Assume: []string{
			"positions are read from the public Error() text of syntax errors and from the exported fields of merge errors",
			"lines are split on \\n; columns count code points",
			"columns of merge errors are not claimed by the property and not checked",
		},
		Technique: "bounded exhaustive enumeration of texts / injections x layouts with a source-map oracle",
		Run:       c16Run,
		Finish: func(r *core.Result) error {
			need := []string{"c16:rejected-text", "c16:accepted-text", "c16:corpus-mutations", "c16:sweeps", "c16:merge:duplicate-type", "c16:merge:duplicate-condition", "c16:merge:missing-extension-target", "c16:merge:relation-clash"}
			for k := range c16Msg {
				need = append(need, "c16:exact:"+k)
			}
			for _, f := range need {
				if !r.Flags[f] {
					return fmt.Errorf("C16: guard %q never exercised", f)
				}
			}
			return nil
		},
		Replay: func(ctx *core.Ctx, c json.RawMessage) {
			var cs c16Case
			if err := json.Unmarshal(c, &cs); err != nil {
				panic(err)
			}
			switch {
			case cs.Merge != nil:
				c16Merge(ctx, cs.Merge, renderFiles(cs.Merge.Files, cs.Merge.Style, cs.Merge.LChoice))
			case cs.Layout != nil:
				c16Exact(ctx, cs.Layout.Extra, cs.Mark, renderCase(cs.Layout), cs.Layout)
			default:
				c16Bounds(ctx, cs.Text)
			}
		},
	})
}
