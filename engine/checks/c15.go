package checks

import (
	"encoding/json"
	"errors"
	"fmt"
	"strings"

	"github.com/openfga/language/pkg/go/transformer"

	"verif/core"
	"verif/gen"
)

// C15 — fga.mod: accepted file paths are safe, verbatim and correctly located.

// ---- reference path rules (own percent decoder, segment analysis) ---------------

func hexVal(c byte) int {
	switch {
	case c >= '0' && c <= '9':
		return int(c - '0')
	case c >= 'a' && c <= 'f':
		return int(c-'a') + 10
	case c >= 'A' && c <= 'F':
		return int(c-'A') + 10
	}
	return -1
}

// refDecode decodes percent escapes and '+' (query-component rules). ok=false on a malformed escape.
func refDecode(s string) (string, bool) {
	var sb strings.Builder
	for i := 0; i < len(s); i++ {
		switch s[i] {
		case '%':
			if i+2 > len(s)-1 {
				return "", false
			}
			h, l := hexVal(s[i+1]), hexVal(s[i+2])
			if h < 0 || l < 0 {
				return "", false
			}
			sb.WriteByte(byte(h<<4 | l))
			i += 2
		case '+':
			sb.WriteByte(' ')
		default:
			sb.WriteByte(s[i])
		}
	}
	return sb.String(), true
}

// refUnsafe tells whether an entry is unsafe however it is encoded: after
// decoding and separator normalisation it is absolute, has a ".." segment,
// or does not end in ".fga"; or it cannot be decoded.
func refUnsafe(entry string) (bool, string) {
	d, ok := refDecode(entry)
	if !ok {
		return true, "malformed escape"
	}
	d = strings.ReplaceAll(d, "\\", "/")
	if strings.HasPrefix(d, "/") {
		return true, "absolute"
	}
	for _, seg := range strings.Split(d, "/") {
		if seg == ".." {
			return true, "dot-dot segment"
		}
	}
	if !strings.HasSuffix(d, ".fga") {
		return true, "extension"
	}
	return false, ""
}

// pathSafe is what every *returned* path must satisfy.
func pathSafe(p string) string {
	if strings.HasPrefix(p, "/") {
		return "starts with '/'"
	}
	if strings.Contains(p, "\\") {
		return "contains a backslash"
	}
	for _, seg := range strings.Split(p, "/") {
		if seg == ".." {
			return "contains a '..' segment"
		}
	}
	if !strings.HasSuffix(p, ".fga") {
		return "does not end in .fga"
	}
	return ""
}

// ---- manifest construction with known positions ----------------------------------

type pos struct{ Line, Col int }

type manifest struct {
	Text      string
	Schema    *pos // position of the schema value (nil if absent)
	SchemaAlt *pos // alternative acceptable position (anchored / tagged values)
	Contents  *pos
	Items     []pos
	ItemsAlt  []*pos
	Entries   []string // the entry strings as YAML delivers them
	WantErr   bool     // the manifest is malformed by construction (missing / wrong-typed / duplicated keys, non-string entries)
}

type mbuilder struct {
	sb   strings.Builder
	line int
	col  int
	eol  string
}

func (b *mbuilder) w(s string) {
	for _, r := range s {
		if r == '\n' {
			b.sb.WriteString(b.eol)
			b.line++
			b.col = 0
			continue
		}
		b.sb.WriteRune(r)
		b.col++
	}
}
func (b *mbuilder) here() pos { return pos{b.line, b.col} }

func quoteSingle(s string) string { return "'" + strings.ReplaceAll(s, "'", "''") + "'" }
func quoteDouble(s string) string {
	return `"` + strings.ReplaceAll(strings.ReplaceAll(s, `\`, `\\`), `"`, `\"`) + `"`
}

// simpleManifest: block sequence, single-quoted entries (the style used for the exhaustive path enumeration).
func simpleManifest(entries []string) *manifest {
	b := &mbuilder{eol: "\n"}
	m := &manifest{Entries: entries}
	b.w("schema: ")
	p := b.here()
	m.Schema = &p
	b.w("'1.2'\ncontents:\n")
	for i, e := range entries {
		b.w("  ")
		if i == 0 {
			c := b.here()
			m.Contents = &c
		}
		b.w("- ")
		m.Items = append(m.Items, b.here())
		b.w(quoteSingle(e) + "\n")
	}
	if len(entries) == 0 {
		// "contents:" with nothing is a null node
	}
	m.Text = b.sb.String()
	return m
}

// presentations builds the same logical manifest in many YAML presentations.
func presentations(entries []string) []struct {
	Name string
	M    *manifest
} {
	type pres = struct {
		Name string
		M    *manifest
	}
	var out []pres
	plainOK := func(e string) bool {
		if e == "" || strings.ContainsAny(e[:1], "%\\@`!&*|>'\"#-?:,[]{} ") {
			return false
		}
		return !strings.Contains(e, ": ") && !strings.Contains(e, " #") && !strings.HasSuffix(e, ":") && !strings.ContainsAny(e, "[]{},")
	}
	allPlain := true
	for _, e := range entries {
		allPlain = allPlain && plainOK(e)
	}
	build := func(name, eol string, schemaFirst bool, indent string, lead string, style string, trailing string) {
		b := &mbuilder{eol: eol}
		m := &manifest{Entries: entries}
		b.w(lead)
		schema := func() {
			b.w("schema: ")
			p := b.here()
			m.Schema = &p
			b.w("'1.2'" + trailing + "\n")
		}
		contents := func() {
			switch style {
			case "flow":
				b.w("contents: ")
				c := b.here()
				m.Contents = &c
				b.w("[")
				for i, e := range entries {
					if i > 0 {
						b.w(", ")
					}
					m.Items = append(m.Items, b.here())
					b.w(quoteSingle(e))
				}
				b.w("]" + trailing + "\n")
			default:
				b.w("contents:" + trailing + "\n")
				for i, e := range entries {
					b.w(indent)
					if i == 0 {
						c := b.here()
						m.Contents = &c
					}
					b.w("- ")
					m.Items = append(m.Items, b.here())
					switch style {
					case "plain":
						b.w(e)
					case "double":
						b.w(quoteDouble(e))
					case "folded":
						b.w(">-\n" + indent + "    " + e)
					case "literal":
						b.w("|-\n" + indent + "    " + e)
					default:
						b.w(quoteSingle(e))
					}
					b.w(trailing + "\n")
				}
			}
		}
		if schemaFirst {
			schema()
			contents()
		} else {
			contents()
			schema()
		}
		m.Text = b.sb.String()
		out = append(out, pres{name, m})
	}
	build("block-single", "\n", true, "  ", "", "single", "")
	build("block-double", "\n", true, "  ", "", "double", "")
	build("flow", "\n", true, "  ", "", "flow", "")
	build("contents-first", "\n", false, "  ", "", "single", "")
	build("indent-0", "\n", true, "", "", "single", "")
	build("indent-6", "\n", true, "      ", "", "single", "")
	build("leading-comments", "\n", true, "  ", "# fga.mod\n\n# second comment\n", "single", "")
	build("document-start", "\n", true, "  ", "---\n", "single", "")
	build("crlf", "\r\n", true, "  ", "", "single", "")
	build("trailing-comments", "\n", true, "  ", "", "single", " # trailing")
	build("folded", "\n", true, "  ", "", "folded", "")
	build("literal", "\n", true, "  ", "", "literal", "")
	if allPlain {
		build("block-plain", "\n", true, "  ", "", "plain", "")
		build("crlf-plain-contents-first", "\r\n", false, "    ", "\n\n", "plain", "")
	}
	// anchors and aliases: the second entry repeats the first through an alias
	if len(entries) >= 1 {
		b := &mbuilder{eol: "\n"}
		m := &manifest{Entries: append([]string{}, entries...)}
		b.w("schema: ")
		p := b.here()
		m.Schema = &p
		b.w("&v ")
		p2 := b.here()
		m.SchemaAlt = &p2
		b.w("'1.2'\ncontents:\n")
		for i, e := range entries {
			b.w("  ")
			if i == 0 {
				c := b.here()
				m.Contents = &c
			}
			b.w("- ")
			m.Items = append(m.Items, b.here())
			b.w(fmt.Sprintf("&a%d ", i))
			alt := b.here()
			m.ItemsAlt = append(m.ItemsAlt, &alt)
			b.w(quoteSingle(e) + "\n")
		}
		m.Text = b.sb.String()
		out = append(out, pres{"anchors", m})
	}
	return out
}

// malformedManifests: missing / wrong-typed / duplicated keys and non-string entries.
func malformedManifests() []struct {
	Name string
	M    *manifest
} {
	type pres = struct {
		Name string
		M    *manifest
	}
	mk := func(name, text string) pres { return pres{name, &manifest{Text: text, WantErr: true}} }
	return []pres{
		mk("empty", ""),
		mk("only-comment", "# nothing\n"),
		mk("no-schema", "contents:\n  - 'a.fga'\n"),
		mk("no-contents", "schema: '1.2'\n"),
		mk("schema-float", "schema: 1.2\ncontents:\n  - 'a.fga'\n"),
		mk("schema-wrong-version", "schema: '1.1'\ncontents:\n  - 'a.fga'\n"),
		mk("schema-seq", "schema: ['1.2']\ncontents:\n  - 'a.fga'\n"),
		mk("schema-map", "schema: {v: '1.2'}\ncontents:\n  - 'a.fga'\n"),
		mk("schema-null", "schema:\ncontents:\n  - 'a.fga'\n"),
		mk("contents-scalar", "schema: '1.2'\ncontents: 'a.fga'\n"),
		mk("contents-map", "schema: '1.2'\ncontents:\n  a: 'a.fga'\n"),
		mk("contents-null", "schema: '1.2'\ncontents:\n"),
		mk("entry-int", "schema: '1.2'\ncontents:\n  - 12\n  - 'a.fga'\n"),
		mk("entry-bool", "schema: '1.2'\ncontents:\n  - 'a.fga'\n  - true\n"),
		mk("entry-null", "schema: '1.2'\ncontents:\n  - ~\n"),
		mk("entry-seq", "schema: '1.2'\ncontents:\n  - ['a.fga']\n"),
		mk("entry-map", "schema: '1.2'\ncontents:\n  - a: b.fga\n"),
		mk("entry-float", "schema: '1.2'\ncontents:\n  - 1.5\n"),
		mk("duplicate-schema", "schema: '1.2'\nschema: '1.2'\ncontents:\n  - 'a.fga'\n"),
		mk("duplicate-contents", "schema: '1.2'\ncontents:\n  - 'a.fga'\ncontents:\n  - 'b.fga'\n"),
		mk("top-level-seq", "- schema: '1.2'\n"),
		mk("top-level-scalar", "just text\n"),
		mk("tab-indent", "schema: '1.2'\ncontents:\n\t- 'a.fga'\n"),
		mk("unterminated-quote", "schema: '1.2\ncontents:\n  - 'a.fga'\n"),
		mk("bad-alias", "schema: '1.2'\ncontents:\n  - *nope\n"),
	}
}

type c15Case struct {
	Text    string    `json:"text"`
	Entries []string  `json:"entries,omitempty"`
	M       *manifest `json:"manifest,omitempty"`
	Name    string    `json:"presentation,omitempty"`
	// Decoded is what the schema scalar of a schema-spelling case means
	Decoded string `json:"schema_scalar_means,omitempty"`
}

func runMod(text string) (mf *transformer.ModFile, err error, pn any) {
	defer func() {
		if p := recover(); p != nil {
			pn = p
		}
	}()
	mf, err = transformer.TransformModFile(text)
	return
}

var aloneCache = map[string]bool{}

// entryRejectedAlone tells whether the single-entry manifest of e is rejected.
func entryRejectedAlone(e string) bool {
	if v, ok := aloneCache[e]; ok {
		return v
	}
	_, err, pn := runMod(simpleManifest([]string{e}).Text)
	v := err != nil || pn != nil
	if len(aloneCache) < 1<<20 {
		aloneCache[e] = v
	}
	return v
}

// c15Judge applies the oracle to one manifest.
func c15Judge(ctx *core.Ctx, name string, m *manifest, positions bool) bool {
	ctx.Trans(1)
	cs := c15Case{Text: m.Text, Entries: m.Entries, Name: name, M: m}
	viol := func(kind, what, exp, obs string) bool {
		ctx.Violation(kind, fmt.Sprintf("%s: %s\n%s", name, what, m.Text), cs, exp, obs)
		return false
	}
	mf, err, pn := runMod(m.Text)
	if pn != nil {
		return viol("modfile-panics", fmt.Sprintf("TransformModFile panicked: %v", pn), "result or error", fmt.Sprint(pn))
	}
	if (mf == nil) == (err == nil) {
		return viol("result-xor-error", "exactly one of result and error must be returned", "", fmt.Sprint(mf, err))
	}
	if m.WantErr {
		if err == nil {
			return viol("malformed-manifest-accepted", "a manifest that violates a rule was accepted", "error", fmt.Sprintf("%+v", mf))
		}
		ctx.State("rejected:malformed")
		return true
	}
	var unsafe []int
	for i, e := range m.Entries {
		if u, _ := refUnsafe(e); u {
			unsafe = append(unsafe, i)
		}
	}
	if err != nil {
		var me *transformer.ModFileValidationMultipleError
		if !errors.As(err, &me) {
			return viol("error-type", "well-formed YAML with string entries must fail with ModFileValidationMultipleError only", "", fmt.Sprintf("%T %v", err, err))
		}
		if len(unsafe) == 0 {
			// over-rejection of a reference-safe manifest is allowed by the statement; counted for information
			ctx.Count("reference_safe_but_rejected", 1)
		}
		// one error per offending entry, each located at its entry
		seen := map[pos]bool{}
		for _, e := range me.Errors {
			var ve *transformer.ModFileValidationError
			if !errors.As(e, &ve) {
				return viol("error-type", "an element of the error list is not a ModFileValidationError", "", fmt.Sprintf("%T", e))
			}
			p := pos{ve.Line, ve.Column}
			if seen[p] {
				return viol("duplicate-error", fmt.Sprintf("two errors for the same entry at %v", p), "one error per offending entry", err.Error())
			}
			seen[p] = true
		}
		if positions && len(m.Entries) > 1 {
			// every entry is judged on its own: an entry gets an error in this manifest exactly if the manifest made of
			// this entry alone is rejected ("one error per offending entry" - an entry that is fine alone does not offend)
			for i, e := range m.Entries {
				has := seen[m.Items[i]] || (i < len(m.ItemsAlt) && m.ItemsAlt[i] != nil && seen[*m.ItemsAlt[i]])
				if alone := entryRejectedAlone(e); alone != has {
					return viol("entry-verdict-depends-on-neighbours", fmt.Sprintf("entry %d (%q): rejected alone=%v, but error in this manifest=%v", i, e, alone, has), fmt.Sprint(alone), fmt.Sprint(has))
				}
			}
			ctx.Flag("c15:entries-judged-independently")
		}
		if positions {
			for _, i := range unsafe {
				ok := seen[m.Items[i]]
				if !ok && i < len(m.ItemsAlt) && m.ItemsAlt[i] != nil {
					ok = seen[*m.ItemsAlt[i]]
				}
				if !ok {
					return viol("offending-entry-without-error", fmt.Sprintf("unsafe entry %d (%q) has no error located at it (%v)", i, m.Entries[i], m.Items[i]), "one error per offending entry", err.Error())
				}
			}
		} else if len(me.Errors) < len(unsafe) {
			return viol("offending-entry-without-error", fmt.Sprintf("%d unsafe entries but only %d errors", len(unsafe), len(me.Errors)), "one error per offending entry", err.Error())
		}
		if len(me.Errors) > len(m.Entries)+2 {
			return viol("too-many-errors", "more errors than entries", "", err.Error())
		}
		ctx.State("rejected")
		ctx.Flag("c15:rejected")
		if ctx.WantSample() && len(unsafe) > 0 && len(m.Entries) >= 2 {
			ctx.Sample(map[string]any{"manifest": m.Text, "accepted": false, "unsafe_entries": unsafe, "error": err.Error()})
		}
		return true
	}
	// accepted
	ctx.Flag("c15:accepted")
	if len(unsafe) > 0 {
		return viol("unsafe-entry-accepted", fmt.Sprintf("entry %q is unsafe after decoding (reference) but the manifest was accepted", m.Entries[unsafe[0]]), "rejected", fmt.Sprintf("%+v", mf.Contents.Value))
	}
	if mf.Schema.Value != "1.2" {
		return viol("schema-value", "accepted manifest whose schema is not 1.2", "1.2", mf.Schema.Value)
	}
	if len(mf.Contents.Value) != len(m.Entries) {
		return viol("entries-filtered", fmt.Sprintf("%d entries in, %d out", len(m.Entries), len(mf.Contents.Value)), "", "")
	}
	for i, v := range mf.Contents.Value {
		if why := pathSafe(v.Value); why != "" {
			return viol("unsafe-path-returned", fmt.Sprintf("returned path %q %s (entry %q)", v.Value, why, m.Entries[i]), "safe path", v.Value)
		}
		if !strings.ContainsAny(m.Entries[i], "%+\\") && v.Value != m.Entries[i] {
			return viol("path-not-verbatim", fmt.Sprintf("entry %q without %%, + or backslash returned as %q", m.Entries[i], v.Value), m.Entries[i], v.Value)
		}
		if strings.ContainsAny(m.Entries[i], "%+\\") {
			ctx.Flag("c15:encoded-entry-accepted")
		}
		if positions {
			got := pos{v.Line, v.Column}
			if got != m.Items[i] && !(i < len(m.ItemsAlt) && m.ItemsAlt[i] != nil && got == *m.ItemsAlt[i]) {
				return viol("position", fmt.Sprintf("entry %d reported at line=%d column=%d, it stands at %v", i, v.Line, v.Column, m.Items[i]), fmt.Sprint(m.Items[i]), fmt.Sprint(got))
			}
		}
	}
	if positions {
		if got := (pos{mf.Schema.Line, mf.Schema.Column}); got != *m.Schema && !(m.SchemaAlt != nil && got == *m.SchemaAlt) {
			return viol("position", fmt.Sprintf("schema reported at %v, it stands at %v", got, *m.Schema), fmt.Sprint(*m.Schema), fmt.Sprint(got))
		}
		if m.Contents != nil {
			if got := (pos{mf.Contents.Line, mf.Contents.Column}); got != *m.Contents {
				return viol("position", fmt.Sprintf("contents reported at %v, it stands at %v", got, *m.Contents), fmt.Sprint(*m.Contents), fmt.Sprint(got))
			}
		}
		ctx.Flag("c15:positions-checked")
	}
	ctx.State("accepted")
	if ctx.WantSample() && len(m.Entries) >= 2 && strings.ContainsAny(strings.Join(m.Entries, ""), "%\\") {
		ctx.Sample(map[string]any{"manifest": m.Text, "accepted": true, "returned": mf.Contents.Value})
	}
	return true
}

var c15Alphabet = []rune("./\\%25eEfFcC+ag")

func c15Run(ctx *core.Ctx) {
	maxLen := 5
	if ctx.Thorough() {
		maxLen = 6
	}
	suffixes := []string{"", ".fga", "%2Efga", "%2efga"}
	base := 0
	for n := 0; n <= maxLen; n++ {
		if ctx.Expired() {
			ctx.Cap(fmt.Sprintf("wall-clock cap before path length %d", n))
			break
		}
		visit := func(i int, s string) {
			if !ctx.Mine(base + i) {
				return
			}
			for _, suf := range suffixes {
				ctx.Eval(1)
				e := s + suf
				c15Judge(ctx, "path", simpleManifest([]string{e}), true)
				if u, _ := refUnsafe(e); u {
					ctx.Nontrivial("unsafe:" + e)
				} else {
					ctx.Nontrivial("safe:" + e)
				}
			}
			// in second and third position behind good entries: an error must void the whole result
			if n <= 3 {
				c15Judge(ctx, "path-second", simpleManifest([]string{"ok/a.fga", s + ".fga"}), true)
				c15Judge(ctx, "path-third", simpleManifest([]string{"x.fga", s + "%2Efga", "dir/y.fga"}), true)
			}
		}
		if n == 0 {
			visit(0, "")
			base++
			continue
		}
		enumStrings(c15Alphabet, n, visit)
		p := 1
		for i := 0; i < n; i++ {
			p *= len(c15Alphabet)
		}
		base += p
	}
	if ctx.Thorough() {
		// length 7 restricted to strings with at least one of . % backslash in the middle position
		n := 7
		enumStrings(c15Alphabet, n, func(i int, s string) {
			if !ctx.Mine(base+i) || !strings.ContainsAny(s[2:5], ".%\\") || ctx.Expired() {
				return
			}
			ctx.Eval(1)
			c15Judge(ctx, "path", simpleManifest([]string{s + ".fga"}), true)
		})
	}
	// white space at the edges and inside an entry (quoted scalars keep it): an entry is returned verbatim or rejected - never
	// trimmed, and a trimmed look-alike of a good path (`wiki.fga `) is not a good path
	{
		k := 1 << 25
		for _, w := range []string{" ", "\t", "\u00a0", "  ", " \t ", "\u3000"} {
			for _, b := range []string{"a.fga", "dir/b.fga", "../x.fga", "/abs.fga", "c.txt", "a%2Efga", "%2e%2e/y.fga", "x\\y.fga", "", ".fga"} {
				for _, e := range []string{w + b, b + w, w + b + w, "d" + w + "e/" + b, b + w + ".fga"} {
					k++
					if !ctx.Mine(k) {
						continue
					}
					ctx.Eval(3)
					ctx.Flag("c15:edge-whitespace")
					c15Judge(ctx, "path-whitespace", simpleManifest([]string{e}), true)
					c15Judge(ctx, "path-whitespace-second", simpleManifest([]string{"ok/a.fga", e}), true)
					c15Judge(ctx, "path-whitespace-first", simpleManifest([]string{e, "ok/a.fga"}), true)
				}
			}
		}
	}
	// segment sequences: every path of one to four segments drawn from a menu of look-alikes of the parent segment (names with
	// leading, trailing and inner dot runs, encoded dots) joined by one of four separator spellings - paths of 11 to 30
	// characters that the per-character enumeration above cannot reach, with several dot runs in one path
	{
		segs := []string{"..", "...", "a..", "..a", "v1..2", "a", ".", "%2e%2e", "%2E.", ""}
		seps := []string{"/", "\\", "%2f", "%5C"}
		var rec func(cur []string)
		k := 1 << 26
		rec = func(cur []string) {
			if len(cur) > 0 {
				for _, sep := range seps {
					k++
					if !ctx.Mine(k) {
						continue
					}
					ctx.Eval(1)
					e := strings.Join(cur, sep) + sep + "m.fga"
					c15Judge(ctx, "segments", simpleManifest([]string{e}), true)
					ctx.Flag("c15:segment-sequences")
					if u, _ := refUnsafe(e); u {
						ctx.Nontrivial("unsafe:" + e)
					} else {
						ctx.Nontrivial("safe:" + e)
					}
				}
			}
			if len(cur) == 4 || ctx.Expired() {
				return
			}
			for _, sg := range segs {
				rec(append(cur, sg))
			}
		}
		rec(nil)
	}
	// size sweep: manifests of n entries (line numbers of two and three digits), none / the second / the middle / the last
	// of them offending in one of three ways
	if ctx.Shard == 1%max(ctx.N, 1) {
		for _, n := range gen.SweepSizes {
			for _, bad := range []string{"", "../x.fga", "a.txt", "%zz.fga"} {
				for _, pos := range []int{1, n / 2, n - 1} {
					var es []string
					for i := 0; i < n; i++ {
						es = append(es, fmt.Sprintf("dir%03d/f%03d.fga", (i*7+3)%n, i))
					}
					if bad != "" {
						es[pos] = bad
					}
					ctx.Eval(1)
					c15Judge(ctx, "many-entries", simpleManifest(es), true)
					ctx.Flag("c15:many-entries")
					if bad == "" {
						break
					}
				}
			}
		}
	}
	// spellings of the schema value: every YAML scalar style, with and without white space that a tolerant comparison would
	// forgive. decoded is what the scalar means; the manifest may be accepted only if that is exactly "1.2", and then the
	// returned value is exactly "1.2"
	if ctx.Shard == 2%max(ctx.N, 1) {
		spellings := []struct{ yaml, decoded string }{
			{"'1.2'", "1.2"}, {"\"1.2\"", "1.2"}, {"\"\\u0031.2\"", "1.2"}, {"|-\n  1.2", "1.2"}, {">-\n  1.2", "1.2"},
			{"|\n  1.2", "1.2\n"}, {">\n  1.2", "1.2\n"}, {"|+\n  1.2\n", "1.2\n\n"}, {"\"1.2\\n\"", "1.2\n"}, {"\"1.2 \"", "1.2 "},
			{"' 1.2'", " 1.2"}, {"' 1.2 '", " 1.2 "}, {"\"1.2\\t\"", "1.2\t"}, {"\"\\t1.2\"", "\t1.2"}, {"'1.20'", "1.20"}, {"'01.2'", "01.2"},
			{"\"1.2\\u00a0\"", "1.2\u00a0"}, {"\"1.2\\r\"", "1.2\r"}, {"'1.2\n\n  '", "1.2\n"}, {"'1,2'", "1,2"}, {"'1.2.0'", "1.2.0"}, {"''", ""},
		}
		for _, sp := range spellings {
			for _, order := range []bool{true, false} {
				text := "schema: " + sp.yaml + "\ncontents:\n  - 'a.fga'\n"
				if !order {
					text = "contents:\n  - 'a.fga'\nschema: " + sp.yaml + "\n"
				}
				ctx.Eval(1)
				ctx.Trans(1)
				mf, err, pn := runMod(text)
				cs := c15Case{Text: text, Decoded: sp.decoded}
				if pn != nil {
					ctx.Violation("panic", fmt.Sprintf("TransformModFile panicked on a schema spelling: %v\n%s", pn, text), cs, "", fmt.Sprint(pn))
					continue
				}
				if err == nil && mf != nil {
					if sp.decoded != "1.2" || mf.Schema.Value != "1.2" {
						ctx.Violation("schema-value", fmt.Sprintf("manifest accepted although its schema value is %q (returned %q), not exactly 1.2\n%s", sp.decoded, mf.Schema.Value, text), cs, "rejected (or schema exactly 1.2)", mf.Schema.Value)
						continue
					}
					ctx.Flag("c15:schema-spelling-accepted")
				} else {
					ctx.Flag("c15:schema-spelling-rejected")
				}
			}
		}
	}
	// YAML presentations x a path set with every kind of entry
	if ctx.Shard == 0 {
		sets := [][]string{
			{"a.fga"}, {"dir/a.fga", "b.fga"}, {"a.fga", "b/c/d.fga", "e.fga"},
			{"../a.fga"}, {"a.fga", "/abs.fga"}, {"a%2Ffga.fga", "..%2Fx.fga", "ok.fga"}, {"a.txt", "b.fga"},
			{"dir\\a.fga"}, {"a+b.fga"}, {"%2e%2e/a.fga"}, {"a/../b.fga", "c.fga", "..\\d.fga"}, {"%zz.fga"}, {"a b.fga"}, {"x.FGA"},
			{}, {"a.fga", "a.fga"},
		}
		for _, es := range sets {
			for _, p := range presentations(es) {
				ctx.Eval(1)
				if len(es) == 0 && p.Name == "flow" {
					// an empty flow sequence is a present, empty list
				}
				if len(es) == 0 && p.Name != "flow" {
					continue // "contents:" with nothing below is a null node: a malformed manifest, covered there
				}
				c15Judge(ctx, "presentation "+p.Name, p.M, true)
				ctx.Flag("c15:presentation:" + p.Name)
			}
		}
		for _, p := range malformedManifests() {
			ctx.Eval(1)
			c15Judge(ctx, "malformed "+p.Name, p.M, false)
			ctx.Flag("c15:malformed")
		}
	}
}

func init() {
	core.Register(&core.Check{
		ID: "C15",
		Rule: "every path string of length <= 5 (quick) / <= 6 (thorough, plus length 7 with one of . % \\ in the middle) over the alphabet { . / \\ % 2 5 e E f F c C + a g }, bare and with .fga / %2Efga / %2efga appended, " +
			"as single entry and (length <= 3) as second and third entry behind good ones, in a single-quoted block-sequence manifest; every sequence of 1-4 segments from a menu of 10 parent-segment look-alikes (.., ..., a.., ..a, v1..2, a, ., %2e%2e, %2E., empty) x 4 separator spellings; manifests of 4..128 entries with none / the second / the middle / the last offending; 22 spellings of the schema value (every scalar style, with white space a tolerant comparison would forgive) x 2 key orders; 16 entry sets x 15 YAML presentations (block/flow, plain/single/double/folded/literal scalars, key order, indentation, comments, CRLF, document start, anchors); " +
			"25 malformed manifests (missing/wrong-typed/duplicated keys, non-string entries). Oracle: own percent decoder and segment analysis; positions from the generator's offsets; in multi-entry manifests an entry has an error exactly if it is rejected alone. " +
			"states = outcome classes, non-trivial = distinct path strings",
		Assume: []string{
			"over-rejection of a path that is safe by the reference (e.g. 'a/b../c.fga') is allowed by the statement and only counted",
			"for anchored values the anchor position and the value position are both accepted",
			"yaml.v3 is treated as atomic",
		},
		Technique: "bounded exhaustive enumeration of path strings and YAML presentations against a reference decoder / segment analysis with a source-position oracle",
		Run:       c15Run,
		Finish: func(r *core.Result) error {
			for _, f := range []string{"c15:accepted", "c15:rejected", "c15:encoded-entry-accepted", "c15:positions-checked", "c15:malformed", "c15:entries-judged-independently", "c15:presentation:anchors", "c15:presentation:folded", "c15:presentation:crlf", "c15:presentation:block-plain"} {
				if !r.Flags[f] {
					return fmt.Errorf("C15: guard %q never exercised", f)
				}
			}
			return nil
		},
		Replay: func(ctx *core.Ctx, c json.RawMessage) {
			var cs c15Case
			if err := json.Unmarshal(c, &cs); err != nil {
				panic(err)
			}
			if cs.M == nil {
				// a schema spelling: accepted only if the scalar means exactly 1.2, and then returned as exactly 1.2
				mf, err, pn := runMod(cs.Text)
				if pn != nil {
					ctx.Violation("panic", fmt.Sprintf("TransformModFile panicked: %v", pn), cs, "", fmt.Sprint(pn))
				} else if err == nil && mf != nil && (mf.Schema.Value != "1.2" || cs.Decoded != "1.2") {
					ctx.Violation("schema-value", fmt.Sprintf("manifest accepted although its schema value is %q (returned %q)", cs.Decoded, mf.Schema.Value), cs, "rejected (or schema exactly 1.2)", mf.Schema.Value)
				}
				return
			}
			c15Judge(ctx, cs.Name, cs.M, cs.M != nil && len(cs.M.Items) == len(cs.M.Entries) && !cs.M.WantErr)
		},
	})
}
