package checks

import (
	"encoding/json"
	"fmt"
	"os"
	"path/filepath"
	"regexp"
	"sort"
	"strings"

	"verif/core"
	"verif/ref"
)

// C19 — Go, JS and Java parsers are generated from the one grammar in the repository.

type c19Case struct {
	What string `json:"what"`
}

type artefacts struct {
	name                                      string // go | js | java
	atn                                       []int
	rules, literal, symbolic, channels, modes []string
	interp                                    *ref.Interp
	tokens                                    map[string]int
	listener                                  []string // Enter/Exit method names of the generated listener
	errs                                      []string
}

func readFile(p string) string {
	b, err := os.ReadFile(p)
	if err != nil {
		return ""
	}
	return string(b)
}

// between returns the text after marker up to the first occurrence of end.
func between(text, marker, end string) (string, bool) {
	i := strings.Index(text, marker)
	if i < 0 {
		return "", false
	}
	rest := text[i+len(marker):]
	j := strings.Index(rest, end)
	if j < 0 {
		return "", false
	}
	return rest[:j], true
}

var strLit = regexp.MustCompile(`"((?:[^"\\]|\\.)*)"|\bnull\b|\bnil\b`)

// parseNameList reads a list of double-quoted strings / null from source text;
// Go uses "" for absent names.
func parseNameList(src string, emptyIsNull bool) []string {
	var out []string
	for _, m := range strLit.FindAllStringSubmatch(src, -1) {
		if m[0] == "null" || m[0] == "nil" {
			out = append(out, "null")
			continue
		}
		s := m[1]
		s = strings.ReplaceAll(s, `\\`, "\x00")
		s = strings.ReplaceAll(s, `\"`, `"`)
		s = strings.ReplaceAll(s, `\'`, `'`)
		s = strings.ReplaceAll(s, "\x00", `\`)
		if s == "" && emptyIsNull {
			s = "null"
		}
		out = append(out, s)
	}
	return out
}

func trimNulls(l []string) []string {
	for len(l) > 0 && l[len(l)-1] == "null" {
		l = l[:len(l)-1]
	}
	return l
}

func parseTokens(text string) map[string]int {
	out := map[string]int{}
	for _, l := range strings.Split(text, "\n") {
		l = strings.TrimRight(l, "\r")
		i := strings.LastIndex(l, "=")
		if i <= 0 {
			continue
		}
		var n int
		fmt.Sscanf(l[i+1:], "%d", &n)
		out[l[:i]] = n
	}
	return out
}

func loadArtefacts(repo string, which string, lexer bool) *artefacts {
	a := &artefacts{name: which}
	base := "OpenFGAParser"
	if lexer {
		base = "OpenFGALexer"
	}
	fail := func(f string, args ...any) { a.errs = append(a.errs, fmt.Sprintf(f, args...)) }
	var dir, src string
	switch which {
	case "go":
		dir = filepath.Join(repo, "pkg/go/gen")
		src = readFile(filepath.Join(dir, map[bool]string{false: "openfga_parser.go", true: "openfga_lexer.go"}[lexer]))
		if s, ok := between(src, "staticData.serializedATN = []int32{", "}"); ok {
			a.atn, _ = ref.ParseIntList(s)
		} else {
			fail("go: serializedATN not found")
		}
		get := func(field string) []string {
			s, ok := between(src, "staticData."+field+" = []string{", "\n  }\n")
			if !ok {
				fail("go: %s not found", field)
			}
			return parseNameList(s, true)
		}
		a.rules, a.literal, a.symbolic = get("RuleNames"), get("LiteralNames"), get("SymbolicNames")
		if lexer {
			a.channels, a.modes = get("ChannelNames"), get("ModeNames")
		} else {
			ls := readFile(filepath.Join(dir, "openfgaparser_listener.go"))
			for _, m := range regexp.MustCompile(`(?m)^\s*((?:Enter|Exit)\w+)\(`).FindAllStringSubmatch(ls, -1) {
				a.listener = append(a.listener, m[1])
			}
		}
	case "js":
		dir = filepath.Join(repo, "pkg/js/gen")
		src = readFile(filepath.Join(dir, base+".ts"))
		if s, ok := between(src, "_serializedATN: number[] = [", "]"); ok {
			a.atn, _ = ref.ParseIntList(s)
		} else {
			fail("js: _serializedATN not found")
		}
		get := func(field string) []string {
			re := regexp.MustCompile(`public static readonly ` + field + `: [^=]*= \[`)
			loc := re.FindStringIndex(src)
			if loc == nil {
				fail("js: %s not found", field)
				return nil
			}
			rest := src[loc[1]:]
			j := strings.Index(rest, "];")
			return parseNameList(rest[:j], false)
		}
		a.rules, a.literal, a.symbolic = get("ruleNames"), get("literalNames"), get("symbolicNames")
		if lexer {
			a.channels, a.modes = get("channelNames"), get("modeNames")
		} else {
			ls := readFile(filepath.Join(dir, "OpenFGAParserListener.ts"))
			for _, m := range regexp.MustCompile(`(?m)^\s*((?:enter|exit)\w+)\?:`).FindAllStringSubmatch(ls, -1) {
				a.listener = append(a.listener, strings.ToUpper(m[1][:1])+m[1][1:])
			}
		}
	case "java":
		dir = filepath.Join(repo, "pkg/java/src/main/gen/dev/openfga/language/antlr")
		src = readFile(filepath.Join(dir, base+".java"))
		if s, ok := between(src, "String _serializedATN =", ";\n"); ok {
			v, err := ref.ParseJavaStringConcat(s)
			if err != nil {
				fail("java: %v", err)
			}
			// the Java target stores the ATN as 16-bit words: values >= 0x8000 and -1 take two words
			for i := 0; i < len(v); i++ {
				w := v[i]
				if w&0x8000 == 0 {
					a.atn = append(a.atn, w)
					continue
				}
				if i+1 >= len(v) {
					fail("java: truncated two-word value in _serializedATN")
					break
				}
				i++
				if w == 0xFFFF && v[i] == 0xFFFF {
					a.atn = append(a.atn, -1)
				} else {
					a.atn = append(a.atn, (w&0x7FFF)<<16|(v[i]&0xFFFF))
				}
			}
		} else {
			fail("java: _serializedATN not found")
		}
		get := func(marker string) []string {
			s, ok := between(src, marker, "};")
			if !ok {
				fail("java: %s not found", marker)
			}
			return parseNameList(s, false)
		}
		a.rules = get("String[] makeRuleNames() {")
		a.literal = get("String[] makeLiteralNames() {")
		a.symbolic = get("String[] makeSymbolicNames() {")
		if lexer {
			a.channels = get("String[] channelNames = {")
			a.modes = get("String[] modeNames = {")
		} else {
			ls := readFile(filepath.Join(dir, "OpenFGAParserListener.java"))
			for _, m := range regexp.MustCompile(`(?m)^\s*void ((?:enter|exit)\w+)\(`).FindAllStringSubmatch(ls, -1) {
				a.listener = append(a.listener, strings.ToUpper(m[1][:1])+m[1][1:])
			}
		}
	}
	if src == "" {
		fail("%s: generated source missing", which)
	}
	it, err := ref.ParseInterp(readFile(filepath.Join(dir, base+".interp")))
	if err != nil || it == nil || len(it.ATN) == 0 {
		fail("%s: %s.interp unreadable (%v)", which, base, err)
		it = &ref.Interp{}
	}
	a.interp = it
	a.tokens = parseTokens(readFile(filepath.Join(dir, base+".tokens")))
	a.literal, a.symbolic = trimNulls(a.literal), trimNulls(a.symbolic)
	return a
}

// ---- names declared in the .g4 sources -------------------------------------------

type g4Names struct {
	parserRules []string
	lexerRules  []string // all lexer rules incl. fragments, in order
	tokenNames  []string // tokens{} entries followed by non-fragment lexer rules, in first-occurrence order
	modes       []string
	literals    map[string]string // token name -> 'literal' for single-literal rules
}

func stripG4Comments(s string) string {
	var sb strings.Builder
	i := 0
	for i < len(s) {
		switch {
		case s[i] == '\'':
			j := i + 1
			for j < len(s) && s[j] != '\'' {
				if s[j] == '\\' {
					j++
				}
				j++
			}
			if j >= len(s) {
				j = len(s) - 1
			}
			sb.WriteString(s[i : j+1])
			i = j + 1
		case strings.HasPrefix(s[i:], "//"):
			for i < len(s) && s[i] != '\n' {
				i++
			}
		case strings.HasPrefix(s[i:], "/*"):
			j := strings.Index(s[i+2:], "*/")
			if j < 0 {
				i = len(s)
			} else {
				i += j + 4
			}
		default:
			sb.WriteByte(s[i])
			i++
		}
	}
	return sb.String()
}

func readG4(repo string) (*g4Names, error) {
	p := stripG4Comments(readFile(filepath.Join(repo, "OpenFGAParser.g4")))
	l := stripG4Comments(readFile(filepath.Join(repo, "OpenFGALexer.g4")))
	if p == "" || l == "" {
		return nil, fmt.Errorf("grammar files missing")
	}
	n := &g4Names{literals: map[string]string{}}
	ruleRe := regexp.MustCompile(`(?m)^\s*(fragment\s+)?([A-Za-z_]\w*)\s*:`)
	for _, m := range ruleRe.FindAllStringSubmatch(p, -1) {
		n.parserRules = append(n.parserRules, m[2])
	}
	seen := map[string]bool{}
	if tb, ok := between(l, "tokens {", "}"); ok {
		for _, t := range regexp.MustCompile(`[A-Za-z_]\w*`).FindAllString(tb, -1) {
			if !seen[t] {
				seen[t] = true
				n.tokenNames = append(n.tokenNames, t)
			}
		}
	}
	n.modes = []string{"DEFAULT_MODE"}
	for _, m := range regexp.MustCompile(`(?m)^\s*mode\s+(\w+)\s*;`).FindAllStringSubmatch(l, -1) {
		n.modes = append(n.modes, m[1])
	}
	// rules with bodies, to find single-literal rules
	bodyRe := regexp.MustCompile(`(?ms)^\s*(fragment\s+)?([A-Z_]\w*)\s*:(.*?);\s*$`)
	retyped := map[string]bool{}
	for _, m := range bodyRe.FindAllStringSubmatch(l, -1) {
		if i := strings.Index(m[3], "->"); i >= 0 && strings.Contains(m[3][i:], "type(") {
			retyped[m[2]] = true // a rule with a type(X) command emits X and owns no token number
		}
	}
	for _, m := range ruleRe.FindAllStringSubmatch(l, -1) {
		n.lexerRules = append(n.lexerRules, m[2])
		if m[1] == "" && !seen[m[2]] && !retyped[m[2]] {
			seen[m[2]] = true
			n.tokenNames = append(n.tokenNames, m[2])
		}
	}
	for _, m := range bodyRe.FindAllStringSubmatch(l, -1) {
		if m[1] != "" {
			continue
		}
		body := strings.TrimSpace(m[3])
		if i := strings.Index(body, "->"); i >= 0 {
			body = strings.TrimSpace(body[:i])
		}
		if regexp.MustCompile(`^'(?:[^'\\]|\\.)*'$`).MatchString(body) {
			if _, dup := n.literals[m[2]]; !dup {
				n.literals[m[2]] = body
			}
		}
	}
	return n, nil
}

// ---- lock-step product exploration -------------------------------------------------

// productBFS walks the automata in lock step from every rule and mode start
// state and compares state kind, rule index, flags, decision number and every
// transition. It returns the number of product states and transitions visited
// and the first difference.
func productBFS(as []*ref.ATN, names []string) (states, transitions int, diff string) {
	a0 := as[0]
	for i, a := range as[1:] {
		if a.GrammarType != a0.GrammarType || a.MaxTokenType != a0.MaxTokenType || len(a.RuleStart) != len(a0.RuleStart) || len(a.Modes) != len(a0.Modes) ||
			len(a.Decisions) != len(a0.Decisions) || len(a.Sets) != len(a0.Sets) || len(a.Actions) != len(a0.Actions) {
			return 0, 0, fmt.Sprintf("%s and %s differ in grammar type / max token type / number of rules, modes, decisions, sets or lexer actions", names[0], names[i+1])
		}
	}
	type triple [3]int
	var queue []triple
	seen := map[triple]bool{}
	push := func(t triple) {
		if !seen[t] {
			seen[t] = true
			queue = append(queue, t)
		}
	}
	start := func(get func(a *ref.ATN) []int, what string) string {
		for i := range get(a0) {
			var t triple
			for k, a := range as {
				t[k] = get(a)[i]
			}
			push(t)
		}
		return ""
	}
	start(func(a *ref.ATN) []int { return a.RuleStart }, "rule start")
	start(func(a *ref.ATN) []int { return a.Modes }, "mode start")
	for i := range a0.RuleToken {
		for k, a := range as[1:] {
			if a.RuleToken[i] != a0.RuleToken[i] {
				return len(seen), transitions, fmt.Sprintf("lexer rule %d yields token type %d in %s and %d in %s", i, a0.RuleToken[i], names[0], a.RuleToken[i], names[k+1])
			}
		}
	}
	setEq := func(x, y ref.ATNSet) bool {
		if x.EOF != y.EOF || len(x.Intervals) != len(y.Intervals) {
			return false
		}
		for i := range x.Intervals {
			if x.Intervals[i] != y.Intervals[i] {
				return false
			}
		}
		return true
	}
	for len(queue) > 0 {
		t := queue[0]
		queue = queue[1:]
		s0 := a0.States[t[0]]
		for k := 1; k < len(as); k++ {
			sk := as[k].States[t[k]]
			if sk.Type != s0.Type || sk.Rule != s0.Rule || sk.NonGreedy != s0.NonGreedy || sk.Precedence != s0.Precedence || sk.Decision != s0.Decision || len(sk.Trans) != len(s0.Trans) {
				return len(seen), transitions, fmt.Sprintf("state %d of %s and state %d of %s differ (type %d/%d rule %d/%d decision %d/%d transitions %d/%d)",
					t[0], names[0], t[k], names[k], s0.Type, sk.Type, s0.Rule, sk.Rule, s0.Decision, sk.Decision, len(s0.Trans), len(sk.Trans))
			}
		}
		if s0.Extra >= 0 {
			var e triple
			for k, a := range as {
				e[k] = a.States[t[k]].Extra
				if e[k] < 0 {
					return len(seen), transitions, fmt.Sprintf("state %d: end/loop state missing in %s", t[k], names[k])
				}
			}
			push(e)
		}
		for i, tr0 := range s0.Trans {
			transitions++
			nt := triple{tr0.Target}
			for k := 1; k < len(as); k++ {
				trk := as[k].States[t[k]].Trans[i]
				same := trk.Type == tr0.Type
				if same {
					switch tr0.Type {
					case 7, 8: // set / not set: compare the sets themselves
						same = setEq(a0.Sets[tr0.A1], as[k].Sets[trk.A1])
					case 3: // rule: a1 = rule start state, a2 = rule index, a3 = precedence; follow state is the target
						same = trk.A2 == tr0.A2 && trk.A3 == tr0.A3
					default:
						same = trk.A1 == tr0.A1 && trk.A2 == tr0.A2 && trk.A3 == tr0.A3
					}
				}
				if !same {
					return len(seen), transitions, fmt.Sprintf("transition %d of state %d (%s) and of state %d (%s) differ: %+v vs %+v", i, t[0], names[0], t[k], names[k], tr0, trk)
				}
				nt[k] = trk.Target
			}
			push(nt)
			if tr0.Type == 3 {
				// the invoked rule's start state must correspond as well
				rs := triple{tr0.A1}
				for k := 1; k < len(as); k++ {
					rs[k] = as[k].States[t[k]].Trans[i].A1
				}
				push(rs)
			}
		}
	}
	// states the walk did not reach (ANTLR leaves dangling states behind): they must be the same in all automata
	var unreached []string
	for k, a := range as {
		hit := make([]bool, len(a.States))
		for tr := range seen {
			hit[tr[k]] = true
		}
		var sig []string
		for s, h := range hit {
			if !h && a.States[s].Type != 0 {
				sig = append(sig, fmt.Sprintf("%d:type%d/rule%d/trans%d", s, a.States[s].Type, a.States[s].Rule, len(a.States[s].Trans)))
			}
		}
		unreached = append(unreached, strings.Join(sig, " "))
	}
	for k := 1; k < len(as); k++ {
		if unreached[k] != unreached[0] {
			return len(seen), transitions, fmt.Sprintf("states outside the lock-step walk differ: %s has [%s], %s has [%s]", names[0], unreached[0], names[k], unreached[k])
		}
	}
	for i := range a0.Actions {
		for k := 1; k < len(as); k++ {
			if as[k].Actions[i] != a0.Actions[i] {
				return len(seen), transitions, fmt.Sprintf("lexer action %d differs between %s and %s", i, names[0], names[k])
			}
		}
	}
	return len(seen), transitions, ""
}

func eqList(a, b []string) bool {
	if len(a) != len(b) {
		return false
	}
	for i := range a {
		if a[i] != b[i] {
			return false
		}
	}
	return true
}

func c19Static(ctx *core.Ctx) {
	repo := RepoRoot()
	viol := func(kind, what string) {
		ctx.Violation(kind, what, c19Case{what}, "", "")
	}
	g4, err := readG4(repo)
	if err != nil {
		viol("grammar-missing", err.Error())
		return
	}
	for _, lexer := range []bool{false, true} {
		kind := "parser"
		if lexer {
			kind = "lexer"
		}
		var arts []*artefacts
		var atns []*ref.ATN
		var names []string
		for _, w := range []string{"go", "js", "java"} {
			a := loadArtefacts(repo, w, lexer)
			for _, e := range a.errs {
				viol("artefact-unreadable", kind+": "+e)
			}
			if len(a.errs) > 0 {
				return
			}
			arts = append(arts, a)
			// source ATN and .interp ATN of the same package
			for _, src := range []struct {
				n string
				d []int
			}{{w + " source", a.atn}, {w + " .interp", a.interp.ATN}} {
				at, err := ref.DeserializeATN(src.d)
				if err != nil {
					viol("atn-undecodable", fmt.Sprintf("%s %s: %v", kind, src.n, err))
					return
				}
				atns = append(atns, at)
				names = append(names, src.n)
			}
		}
		ctx.Eval(1)
		// (1) lock-step product of the three source automata, then each .interp against its source
		st, tr, diff := productBFS([]*ref.ATN{atns[0], atns[2], atns[4]}, []string{names[0], names[2], names[4]})
		ctx.Count(kind+"_product_states", st)
		ctx.Count(kind+"_product_transitions", tr)
		ctx.Trans(tr)
		for i := 0; i < st; i++ {
			ctx.State(fmt.Sprintf("%s-product-%d", kind, i))
		}
		if diff != "" {
			viol("automata-differ", kind+": "+diff)
			return
		}
		for k := 0; k < 3; k++ {
			_, tr2, d := productBFS([]*ref.ATN{atns[2*k], atns[2*k+1], atns[2*k+1]}, []string{names[2*k], names[2*k+1], names[2*k+1]})
			ctx.Trans(tr2)
			if d != "" {
				viol("interp-differs-from-source", kind+": "+d)
				return
			}
		}
		ctx.Flag("c19:product:" + kind)
		// (2) vocabularies
		a0 := arts[0]
		for _, a := range arts {
			ctx.Eval(1)
			cmp := func(what string, x, y []string) bool {
				if !eqList(x, y) {
					viol("vocabulary-differs", fmt.Sprintf("%s %s: %s differ: %v vs %v", kind, a.name, what, x, y))
					return false
				}
				return true
			}
			ok := cmp("rule names (vs go)", a.rules, a0.rules) && cmp("literal names (vs go)", a.literal, a0.literal) && cmp("symbolic names (vs go)", a.symbolic, a0.symbolic) &&
				cmp("rule names (.interp vs source)", a.interp.Rules, a.rules) &&
				cmp("literal names (.interp vs source)", trimNulls(append([]string{}, a.interp.Literal...)), a.literal) &&
				cmp("symbolic names (.interp vs source)", trimNulls(append([]string{}, a.interp.Symbolic...)), a.symbolic)
			if lexer {
				ok = ok && cmp("channel names (vs go)", a.channels, a0.channels) && cmp("mode names (vs go)", a.modes, a0.modes) &&
					cmp("mode names (.interp)", a.interp.Modes, a.modes) && cmp("channel names (.interp)", a.interp.Channels, a.channels)
			}
			if !ok {
				return
			}
			// .tokens numbering: symbolic name i has number i, literal likewise
			for i, s := range a.symbolic {
				if s != "null" && a.tokens[s] != i {
					viol("tokens-file-differs", fmt.Sprintf("%s %s: .tokens gives %s=%d, the vocabulary says %d", kind, a.name, s, a.tokens[s], i))
					return
				}
			}
			for i, s := range a.literal {
				if s != "null" && a.tokens[s] != i {
					viol("tokens-file-differs", fmt.Sprintf("%s %s: .tokens gives %s=%d, the vocabulary says %d", kind, a.name, s, a.tokens[s], i))
					return
				}
			}
			n := 0
			for range a.tokens {
				n++
			}
			want := 0
			for _, s := range a.symbolic {
				if s != "null" {
					want++
				}
			}
			for _, s := range a.literal {
				if s != "null" {
					want++
				}
			}
			if n != want {
				viol("tokens-file-differs", fmt.Sprintf("%s %s: .tokens has %d entries, vocabulary has %d names", kind, a.name, n, want))
				return
			}
		}
		// against the .g4 sources
		ctx.Eval(1)
		if lexer {
			if !eqList(a0.rules, g4.lexerRules) {
				viol("grammar-not-regenerated", fmt.Sprintf("lexer rule names of the generated lexers %v differ from the rules declared in OpenFGALexer.g4 %v", a0.rules, g4.lexerRules))
				return
			}
			if !eqList(a0.modes, g4.modes) {
				viol("grammar-not-regenerated", fmt.Sprintf("mode names %v differ from OpenFGALexer.g4 %v", a0.modes, g4.modes))
				return
			}
		} else if !eqList(a0.rules, g4.parserRules) {
			viol("grammar-not-regenerated", fmt.Sprintf("parser rule names of the generated parsers %v differ from the rules declared in OpenFGAParser.g4 %v", a0.rules, g4.parserRules))
			return
		}
		// token vocabulary: tokens{} entries then non-fragment lexer rules; rules re-typed with -> type(X) still own a number
		var wantSym []string
		wantSym = append(wantSym, "null")
		wantSym = append(wantSym, g4.tokenNames...)
		gotSym := a0.symbolic
		if !eqList(gotSym, wantSym[:min(len(wantSym), len(gotSym))]) || len(gotSym) > len(wantSym) {
			viol("grammar-not-regenerated", fmt.Sprintf("%s: symbolic token names %v are not a prefix-closed numbering of the tokens declared in OpenFGALexer.g4 %v", kind, gotSym, wantSym))
			return
		}
		for i, lit := range a0.literal {
			if lit == "null" {
				continue
			}
			name := a0.symbolic[i]
			if g4.literals[name] != lit {
				viol("grammar-not-regenerated", fmt.Sprintf("%s: token %s has literal %s in the generated code and %s in OpenFGALexer.g4", kind, name, lit, g4.literals[name]))
				return
			}
		}
		for name, lit := range g4.literals {
			idx := -1
			for i, s := range a0.symbolic {
				if s == name {
					idx = i
				}
			}
			if idx >= 0 && (idx >= len(a0.literal) || a0.literal[idx] != lit) {
				// a literal rule in a non-default mode or one whose literal is shared keeps no literal name; accept absence only if another token owns the literal
				owned := false
				for _, l2 := range a0.literal {
					if l2 == lit {
						owned = true
					}
				}
				if !owned {
					viol("grammar-not-regenerated", fmt.Sprintf("%s: literal %s of %s (OpenFGALexer.g4) is unknown to the generated vocabulary", kind, lit, name))
					return
				}
			}
		}
		ctx.Flag("c19:vocabulary:" + kind)
		// listeners
		if !lexer {
			ruleSet := map[string]bool{}
			for _, r := range a0.rules {
				ruleSet[strings.ToUpper(r[:1])+r[1:]] = true
			}
			for _, a := range arts {
				got := map[string]bool{}
				for _, m := range a.listener {
					got[m] = true
					r := strings.TrimPrefix(strings.TrimPrefix(m, "Enter"), "Exit")
					if !ruleSet[r] {
						viol("listener-names-unknown-rule", fmt.Sprintf("%s generated listener has %s but the grammar has no rule %s", a.name, m, r))
						return
					}
				}
				for r := range ruleSet {
					if !got["Enter"+r] || !got["Exit"+r] {
						viol("listener-incomplete", fmt.Sprintf("%s generated listener lacks Enter/Exit for rule %s", a.name, r))
						return
					}
				}
			}
			// the hand-written Go listener implements callbacks for existing rules only
			hand := readFile(filepath.Join(repo, "pkg/go/transformer/dsltojson.go"))
			ms := regexp.MustCompile(`(?m)^func \(\w+ \*OpenFgaDslListener\) ((?:Enter|Exit)\w+)\(`).FindAllStringSubmatch(hand, -1)
			if len(ms) == 0 {
				viol("listener-unreadable", "no Enter/Exit methods of OpenFgaDslListener found")
				return
			}
			var hs []string
			for _, m := range ms {
				r := strings.TrimPrefix(strings.TrimPrefix(m[1], "Enter"), "Exit")
				hs = append(hs, m[1])
				if !ruleSet[r] {
					viol("listener-names-unknown-rule", fmt.Sprintf("OpenFgaDslListener implements %s but the grammar has no rule %s: the callback can never fire", m[1], r))
					return
				}
			}
			sort.Strings(hs)
			ctx.Sample(map[string]any{"go_listener_callbacks": hs, "parser_rules": a0.rules})
			ctx.Flag("c19:listeners")
		}
		ctx.Nontrivial(kind + "-automata")
		ctx.Nontrivial(kind + "-vocabulary")
	}
}

func c19Run(ctx *core.Ctx) {
	if ctx.Shard == 0 {
		c19Static(ctx)
		c19Skeletons(ctx)
	}
	c19Dynamic(ctx)
}

func init() {
	core.Register(&core.Check{
		ID: "C19",
		Rule: "(1) serialised ATNs extracted from the six generated sources (Go int arrays, TS number arrays, Java string literals) and the six .interp files, decoded by an own deserialiser; lock-step breadth-first walk of the product of the Go x JS x Java automata from every rule and mode start state comparing state kind, rule, flags, decision number and every transition (label sets compared by content), every state must be reached; each .interp against its source. " +
			"(2b) rule-body skeletons: per rule method of the generated Go, TypeScript and Java parsers the sequence of state numbers, token matches, rule invocations, prediction decisions, alternatives and look-ahead token sets (case lists and bit masks decoded to token numbers) - 27 methods, 501 elements each - must be identical in the three packages; " +
			"(2) rule, literal, symbolic, channel and mode names and .tokens numbering across packages and against the names declared in the two .g4 files; generated listeners complete; the hand-written Go listener names existing rules only. " +
			"(3) grammar sentences replayed on the implementation: see the dynamic part of this check. states = product states, transitions = product transitions + replayed sentences, non-trivial = artefact groups",
		Assume: []string{
			"the JS and Java parsers are not executed (no runtime for them offline): their behaviour is bound through automaton and vocabulary identity",
			"ANTLR assigns token numbers to the tokens{} entries first and then to every non-fragment lexer rule without a type(X) command, in order of first occurrence",
		},
		Technique: "explicit-state lock-step exploration of the product of the three generated automata plus replay of grammar-derived sentences on the generated Go parser",
		Run:       c19Run,
		Finish: func(r *core.Result) error {
			for _, f := range []string{"c19:product:parser", "c19:product:lexer", "c19:vocabulary:parser", "c19:vocabulary:lexer", "c19:listeners", "c19:rule-bodies"} {
				if !r.Flags[f] {
					return fmt.Errorf("C19: guard %q never exercised", f)
				}
			}
			return nil
		},
		Replay: func(ctx *core.Ctx, c json.RawMessage) {
			c19Static(ctx)
			c19Skeletons(ctx)
			c19Dynamic(ctx)
		},
	})
}
