package checks

import (
	"bytes"
	"context"
	"encoding/json"
	"fmt"
	"os"
	"os/exec"
	"sort"
	"strings"
	"sync"
	"time"

	openfgav1 "github.com/openfga/api/proto/openfga/v1"

	"github.com/openfga/language/pkg/go/graph"
	"github.com/openfga/language/pkg/go/transformer"
	"github.com/openfga/language/pkg/go/utils"
	"github.com/openfga/language/pkg/go/validation"

	"verif/core"
	"verif/gen"
	"verif/ref"
	"verif/rt"
)

// C13 — pure functions: inputs untouched, calls independent of history, thread-safe.

// ---- shared fixtures ---------------------------------------------------------------

var c13Docs = []string{
	"model\n  schema 1.1\ntype user\ntype doc\n  relations\n    define viewer: [user] or editor\n    define editor: [user]\n",
	"model\n  schema 1.1\ntype user\ntype doc\n  relations\n    define a: ([user] and b) but not c from p\n    define b: [user, user:*]\n    define c: [user]\n    define p: [doc]\ncondition k(x: int, l: list<string>) {\n  x < 1\n}\n",
	"module core\n\ntype user\n\nextend type doc\n  relations\n    define owner: [user with k]\n\ncondition k(x: int) {\n  x < 1\n}\n",
	"model\n  schema 1.1\ntype user\ntype doc\n  relations\n    define a: b or c and d\n",
	"model\n  schema 1.1\ntype doc\n  relations\n    define a: [user]\n    define a: [user]\n",
	"model\n  schema 1.1\ntype user # comment\n  # full line\ntype folder\n  relations\n    define parent: [\n      folder,\n      user\n    ]\n    define v: (v from parent)\n",
	"type nothing\n",
	"model\n  schema 1.1\ntype $\n",
	// twin of document 1: every name of it (doc, a, b, c, p, k, x, l) with another meaning - state keyed by a name only
	// (a memo of rendered conditions, of relation lookups, of parameter types) hands one document the other's content
	"model\n  schema 1.1\ntype user\ntype doc\n  relations\n    define a: [user] or b\n    define b: [user]\n    define c: c from p or b\n    define p: [doc, user]\ncondition k(x: string, l: map<int>) {\n  x == \"a\"\n}\n",
}

func c13ModularModel() *openfgav1.AuthorizationModel {
	ms := c14Modular(false)
	// unsorted type order, several modules
	pm := ref.ToProto(ms[len(ms)/2].M)
	return pm
}

// c13ModelID: the graph model and its twin carry the SAME non-empty id (a stored model and an edited draft that kept the id):
// state keyed by the id of a model hands one the other's content.
const c13ModelID = "01HVMMBCMGZNT3SED4Z17ECXCA"

func c13GraphModel() *openfgav1.AuthorizationModel {
	m := c13GraphModelNoID()
	m.Id = c13ModelID
	return m
}

func c13GraphModelNoID() *openfgav1.AuthorizationModel {
	return ref.ToProto(&ref.Model{Schema: "1.1", Types: []ref.TypeDef{
		{Name: "user"}, {Name: "group", Rels: []ref.Relation{{Name: "member", Rw: ref.T(), Restr: []ref.Restriction{{Type: "user"}, {Type: "group", Relation: "member"}}}}},
		{Name: "doc", Rels: []ref.Relation{
			{Name: "viewer", Rw: ref.U(ref.T(), ref.C("editor"), ref.TT("viewer", "parent")), Restr: []ref.Restriction{{Type: "user"}, {Type: "user", Wildcard: true}, {Type: "group", Relation: "member"}}},
			{Name: "editor", Rw: ref.D(ref.T(), ref.C("blocked")), Restr: []ref.Restriction{{Type: "user"}}},
			{Name: "blocked", Rw: ref.T(), Restr: []ref.Restriction{{Type: "user"}}},
			{Name: "parent", Rw: ref.T(), Restr: []ref.Restriction{{Type: "doc"}}},
		}},
	}})
}

// c13GraphModelTwin has the names of c13GraphModel with other rewrites, restrictions and a condition.
func c13GraphModelTwin() *openfgav1.AuthorizationModel {
	m := c13GraphModelTwinNoID()
	m.Id = c13ModelID
	return m
}

func c13GraphModelTwinNoID() *openfgav1.AuthorizationModel {
	return ref.ToProto(&ref.Model{Schema: "1.1", Types: []ref.TypeDef{
		{Name: "user"}, {Name: "group", Rels: []ref.Relation{{Name: "member", Rw: ref.T(), Restr: []ref.Restriction{{Type: "user", Wildcard: true}}}}},
		{Name: "doc", Rels: []ref.Relation{
			{Name: "viewer", Rw: ref.I(ref.T(), ref.C("blocked")), Restr: []ref.Restriction{{Type: "user", Condition: "k"}, {Type: "group", Relation: "member"}}},
			{Name: "editor", Rw: ref.U(ref.T(), ref.TT("editor", "parent"), ref.TT("owner", "parent")), Restr: []ref.Restriction{{Type: "group", Relation: "member"}}},
			{Name: "owner", Rw: ref.T(), Restr: []ref.Restriction{{Type: "user"}}}, // a relation the other model's doc does not have
			{Name: "blocked", Rw: ref.C("editor")},
			{Name: "parent", Rw: ref.T(), Restr: []ref.Restriction{{Type: "doc"}, {Type: "doc", Condition: "k"}}},
		}},
	}, Conds: []ref.Condition{{Name: "k", Params: []ref.Param{{Name: "x", Type: "timestamp"}}, Expr: "x == x"}}})
}

var c13TwinMemo *openfgav1.AuthorizationModel

func c13Twin() *openfgav1.AuthorizationModel {
	if c13TwinMemo == nil {
		c13TwinMemo = c13GraphModelTwin()
	}
	return c13TwinMemo
}

var c13FailingMemo = map[*openfgav1.AuthorizationModel]*openfgav1.AuthorizationModel{}

// c13Failing is the shared model with an unprintable condition that is reached last (built once per shared model, read-only).
func c13Failing(shared *openfgav1.AuthorizationModel) *openfgav1.AuthorizationModel {
	if f, ok := c13FailingMemo[shared]; ok {
		return f
	}
	f := c14FailingVariants(shared)[4]
	c13FailingMemo[shared] = f
	return f
}

// Live results: during the history search every call that returns an object (a model, a graph) registers how to render it
// again; after the later calls of the history each such object must still render as it did when it was returned (two results
// alive at once do not share state, and a later call does not reach back into an earlier result).
type c13LiveResult struct {
	first  string
	render func() string
}

var (
	c13LiveOn bool
	c13Live   []c13LiveResult
)

func c13Keep(first string, render func() string) string {
	if c13LiveOn {
		c13Live = append(c13Live, c13LiveResult{first, render})
	}
	return first
}

// c13Op is one public call with its observation rendered as a string.
type c13Op struct {
	Name string
	F    func() string
}

func errStr(err error) string {
	if err == nil {
		return ""
	}
	return "ERR " + err.Error()
}

// c13SharedBuilder is renewed before every execution (and before every sequential reference call).
var c13SharedBuilder = graph.NewWeightedAuthorizationModelGraphBuilder()

// c13BuilderModelB shares type names with the graph model but differs in which relations the types have and in what its
// tuple-to-usersets resolve against (a builder that indexes types or relations across calls mixes the two up).
var c13BuilderModelB = ref.ToProto(&ref.Model{Schema: "1.1", Types: []ref.TypeDef{
	{Name: "user"},
	{Name: "folder", Rels: []ref.Relation{{Name: "viewer", Rw: ref.T(), Restr: []ref.Restriction{{Type: "user"}}}, {Name: "owner", Rw: ref.T(), Restr: []ref.Restriction{{Type: "user"}}}}},
	{Name: "doc", Rels: []ref.Relation{
		{Name: "parent", Rw: ref.T(), Restr: []ref.Restriction{{Type: "folder"}}},
		{Name: "viewer", Rw: ref.U(ref.T(), ref.TT("owner", "parent"), ref.TT("viewer", "parent")), Restr: []ref.Restriction{{Type: "user"}, {Type: "user", Wildcard: true}}},
	}},
}})

func modOp(name, text string) c13Op {
	return c13Op{name, func() string {
		m, err := transformer.TransformModFile(text)
		if err != nil {
			return errStr(err)
		}
		render := func() string { return fmt.Sprintf("%+v", *m) }
		return c13Keep(render(), render)
	}}
}

// c13Ops builds the call alphabet over the given shared inputs.
func c13Ops(shared, graphM *openfgav1.AuthorizationModel) []c13Op {
	c13Failing(shared) // built before any thread runs
	c13Twin()
	parse := func(i int) c13Op {
		return c13Op{fmt.Sprintf("parse-doc%d", i), func() string {
			m, err := transformer.TransformDSLToProto(c13Docs[i])
			if err != nil {
				return errStr(err)
			}
			render := func() string { return ref.Dump(m, ref.DumpOpts{Strict: true, RawExpr: true}) }
			return c13Keep(render(), render)
		}}
	}
	ops := []c13Op{parse(0), parse(1), parse(3), parse(5), parse(8),
		{"modular-parse-doc2", func() string {
			m, ext, err := transformer.TransformModularDSLToProto(c13Docs[2])
			if err != nil {
				return errStr(err)
			}
			var ks []string
			for k := range ext {
				ks = append(ks, k)
			}
			sort.Strings(ks)
			render := func() string { return ref.Dump(m, ref.DumpOpts{Strict: true, RawExpr: true}) + fmt.Sprint(ks) }
			return c13Keep(render(), render)
		}},
		{"dsl-to-json-doc1", func() string { s, err := transformer.TransformDSLToJSON(c13Docs[1]); return s + errStr(err) }},
		{"print-shared-modular", func() string {
			s, err := transformer.TransformJSONProtoToDSL(shared, transformer.WithIncludeSourceInformation(true))
			return s + errStr(err)
		}},
		{"print-shared-graph-model", func() string { s, err := transformer.TransformJSONProtoToDSL(graphM); return s + errStr(err) }},
		{"print-failing-variant-of-shared-modular", func() string {
			// a call that fails part-way (after the valid conditions were rendered)
			s, err := transformer.TransformJSONProtoToDSL(c13Failing(shared), transformer.WithIncludeSourceInformation(true))
			return s + errStr(err)
		}},
		{"merge", func() string {
			m, err := transformer.TransformModuleFilesToModel([]transformer.ModuleFile{
				{Name: "a.fga", Contents: "module ma\n\ntype user\n\ntype doc\n  relations\n    define r1: [user]\n"},
				{Name: "b.fga", Contents: "module mb\n\nextend type doc\n  relations\n    define r2: [user]\n    define r1: [user]\n"},
				{Name: "c.fga", Contents: c13Docs[2]},
			}, "1.2")
			if err != nil {
				return errStr(err)
			}
			render := func() string { return ref.Dump(m, laxDump) }
			return c13Keep(render(), render)
		}},
		{"plain-graph-shared", func() string {
			g, err := graph.NewAuthorizationModelGraph(graphM)
			if err != nil {
				return errStr(err)
			}
			r, _ := g.Reversed()
			render := func() string {
				p, _ := g.PathExists("user", "doc#viewer")
				return g.GetDOT() + r.GetDOT() + fmt.Sprintf("%+v %v", g.GetCycles(), p)
			}
			return c13Keep(render(), render)
		}},
		{"weighted-graph-shared", func() string {
			o := wgBuild(graphM)
			render := func() string { return wgObsString(o) }
			return c13Keep(render(), render)
		}},
		// one builder VALUE shared by the calls of an execution (a service keeping a package-level builder): the builder carries no
		// state of its own, so concurrent Build calls on it must behave like calls on fresh builders
		{"weighted-graph-on-shared-builder-A", func() string {
			o := wgBuildOn(c13SharedBuilder, graphM)
			render := func() string { return wgObsString(o) }
			return c13Keep(render(), render)
		}},
		{"weighted-graph-on-shared-builder-B", func() string {
			o := wgBuildOn(c13SharedBuilder, c13BuilderModelB)
			render := func() string { return wgObsString(o) }
			return c13Keep(render(), render)
		}},
		{"print-twin-of-shared-graph-model", func() string { s, err := transformer.TransformJSONProtoToDSL(c13Twin()); return s + errStr(err) }},
		{"weighted-graph-twin-of-shared", func() string {
			o := wgBuild(c13Twin())
			render := func() string { return wgObsString(o) }
			return c13Keep(render(), render)
		}},
		{"plain-graph-twin-of-shared", func() string {
			g, err := graph.NewAuthorizationModelGraph(c13Twin())
			if err != nil {
				return errStr(err)
			}
			return g.GetDOT()
		}},
		// fga.mod manifests: complete, lacking a field, and one that the YAML decoder rejects only after it has filled the fields
		// (what a rejected call leaves behind must not complete a later, incomplete document)
		modOp("modfile-valid", "schema: '1.2'\ncontents:\n  - a.fga\n  - b/c.fga\n"),
		modOp("modfile-missing-contents", "schema: '1.2'\n"),
		modOp("modfile-missing-schema", "contents:\n  - only.fga\n"),
		modOp("modfile-yaml-error-after-fields", "schema: '1.2'\ncontents:\n  - stale/one.fga\n  - stale/two.fga\n<<: oops\n"),
		{"validators+utils", func() string {
			var sb strings.Builder
			for _, s := range []string{"doc:1", "group:eng#member", "user:*", "bad id", "doc:1#viewer"} {
				fmt.Fprint(&sb, validation.ValidateUser(s), validation.ValidateObject(s), validation.ValidateRelation(s), " ")
			}
			for _, td := range graphM.GetTypeDefinitions() {
				for r, rw := range td.GetRelations() {
					_ = r
					_ = utils.IsRelationAssignable(rw)
				}
			}
			m, _ := utils.GetModuleForObjectTypeRelation(shared.GetTypeDefinitions()[0], "viewer")
			return sb.String() + m
		}},
	}
	return ops
}

// wgObsString renders a weighted-graph build without the random operator labels.
func wgObsString(o *wgObs) string {
	if o.g == nil {
		return o.verdict + " " + errStr(o.err)
	}
	var ids []string
	for id := range o.g.GetNodes() {
		if !strings.Contains(id, ":0") { // operator nodes carry random ULIDs
			ids = append(ids, id)
		}
	}
	sort.Strings(ids)
	var sb strings.Builder
	for _, id := range ids {
		n, _ := o.g.GetNodeByID(id)
		if n.GetNodeType() == graph.OperatorNode {
			continue
		}
		w := append([]string{}, n.GetWildcards()...)
		sort.Strings(w)
		fmt.Fprintf(&sb, "%s %s %v\n", id, ref.FmtWeights(n.GetWeights()), w)
	}
	return sb.String()
}

// c13LongLived is a weighted-graph builder value that lives as long as the process (the history search replaces it on reset):
// "which inputs were processed earlier in the process" includes what an earlier Build left behind in the builder.
var c13LongLived = graph.NewWeightedAuthorizationModelGraphBuilder()

func c13Reset() bool {
	c13LongLived = graph.NewWeightedAuthorizationModelGraphBuilder()
	return resetParserCaches()
}

// c13BuilderModels: three models whose tuple-to-usersets resolve against different types and relations; the third is rejected
// (its parent type lacks the relation that the first model's type of the same name has).
func c13BuilderModels() []*openfgav1.AuthorizationModel {
	u := []ref.Restriction{{Type: "user"}}
	w2 := &ref.Model{Schema: "1.1", Types: []ref.TypeDef{{Name: "user"},
		{Name: "team", Rels: []ref.Relation{{Name: "member", Rw: ref.T(), Restr: u}}},
		{Name: "doc", Rels: []ref.Relation{{Name: "owner", Rw: ref.T(), Restr: []ref.Restriction{{Type: "team"}}}, {Name: "can", Rw: ref.TT("member", "owner")}}}}}
	w3 := &ref.Model{Schema: "1.1", Types: []ref.TypeDef{{Name: "user"},
		{Name: "group", Rels: []ref.Relation{{Name: "lead", Rw: ref.T(), Restr: u}}},
		{Name: "doc", Rels: []ref.Relation{{Name: "parent", Rw: ref.T(), Restr: []ref.Restriction{{Type: "group"}}}, {Name: "viewer", Rw: ref.U(ref.T(), ref.TT("member", "parent")), Restr: u}}}}}
	return []*openfgav1.AuthorizationModel{c13GraphModel(), ref.ToProto(w2), ref.ToProto(w3)}
}

type c13Case struct {
	Sub     string   `json:"sub"`
	Ops     []string `json:"ops,omitempty"`
	Choices []int    `json:"choices,omitempty"`
	History []int    `json:"history,omitempty"`
	Tag     string   `json:"tag,omitempty"`
}

func snapshotModel(m *openfgav1.AuthorizationModel) string {
	return ref.Dump(m, ref.DumpOpts{Strict: true, RawExpr: true})
}

// ---- (1) inputs untouched ------------------------------------------------------------

func c13Inputs(ctx *core.Ctx) {
	var models []gen.Tagged
	models = append(models, gen.DSLModels(false)...)
	models = append(models, c14Modular(false)...)
	sp := gen.NewGraphSpace(false)
	for i := 0; i < sp.Size(); i += 97 {
		models = append(models, sp.At(i))
	}
	// size sweeps, with the direct assignment second, third, in the middle and last among up to 128 operands
	models = append(models, gen.SweepModelsJSON(sweepSizes(ctx))...)
	for i, tm := range models {
		if !ctx.Mine(i) || tm.M.Module != "" {
			continue
		}
		ctx.Eval(1)
		pm := ref.ToProto(tm.M)
		// type definitions in reverse order, so that a sort in place is visible
		for a, b := 0, len(pm.TypeDefinitions)-1; a < b; a, b = a+1, b-1 {
			pm.TypeDefinitions[a], pm.TypeDefinitions[b] = pm.TypeDefinitions[b], pm.TypeDefinitions[a]
		}
		calls := []struct {
			name string
			f    func()
		}{
			{"TransformJSONProtoToDSL", func() { _, _, _ = printModel(pm) }},
			{"TransformJSONProtoToDSL(WithIncludeSourceInformation)", func() { _, _, _ = printModel(pm, transformer.WithIncludeSourceInformation(true)) }},
			{"NewAuthorizationModelGraph", func() {
				guard(func() {
					if g, err := graph.NewAuthorizationModelGraph(pm); err == nil {
						g.GetDOT()
						g.Reversed()
						g.GetCycles()
					}
				})
			}},
			{"WeightedAuthorizationModelGraphBuilder.Build", func() { wgBuild(pm) }},
			{"utils", func() {
				guard(func() {
					for _, td := range pm.GetTypeDefinitions() {
						for r, rw := range td.GetRelations() {
							utils.IsRelationAssignable(rw)
							utils.GetModuleForObjectTypeRelation(td, r)
						}
					}
				})
			}},
		}
		for _, c := range calls {
			before := snapshotModel(pm)
			c.f()
			ctx.Trans(1)
			if after := snapshotModel(pm); after != before {
				ctx.Violation("input-modified", fmt.Sprintf("%s modified the model it was given (%s)", c.name, tm.Tag), c13Case{Sub: "inputs", Tag: tm.Tag, Ops: []string{c.name}}, before, after)
				return
			}
		}
		ctx.Flag("c13:inputs")
		ctx.Nontrivial("inputs:" + tm.Tag)
	}
	// module file slices
	if ctx.Shard == 0 {
		for i, fs := range gen.FileSets(2, 1, true) {
			if i%5 != 0 {
				continue
			}
			files := renderFiles(fs.Files, nil, nil)
			mods := make([]transformer.ModuleFile, len(files))
			for k, f := range files {
				mods[k] = transformer.ModuleFile{Name: f.spec.Name, Contents: f.text}
			}
			before := fmt.Sprint(mods)
			guard(func() { transformer.TransformModuleFilesToModel(mods, "1.2") })
			ctx.Trans(1)
			if after := fmt.Sprint(mods); after != before {
				ctx.Violation("input-modified", "TransformModuleFilesToModel modified the slice of module files: "+fs.Tag, c13Case{Sub: "inputs", Tag: fs.Tag}, before, after)
				return
			}
		}
	}
}

// ---- (2) history independence: explicit-state search over parser cache states -------------

func c13History(ctx *core.Ctx) {
	shared, graphM := c13ModularModel(), c13GraphModel()
	type op struct {
		name string
		f    func() string
	}
	var alphabet []op
	for i, d := range c13Docs {
		d := d
		alphabet = append(alphabet, op{fmt.Sprintf("parse-doc%d", i), func() string {
			m, err := transformer.TransformDSLToProto(d)
			if err != nil {
				return errStr(err)
			}
			render := func() string { return ref.Dump(m, ref.DumpOpts{Strict: true, RawExpr: true}) }
			return c13Keep(render(), render)
		}})
		alphabet = append(alphabet, op{fmt.Sprintf("modular-parse-doc%d", i), func() string {
			m, _, err := transformer.TransformModularDSLToProto(d)
			if err != nil {
				return errStr(err)
			}
			render := func() string { return ref.Dump(m, ref.DumpOpts{Strict: true, RawExpr: true}) }
			return c13Keep(render(), render)
		}})
	}
	for _, o := range c13Ops(shared, graphM)[7:] {
		if o.Name == "print-failing-variant-of-shared-modular" {
			continue // the history alphabet has its own failing calls below
		}
		alphabet = append(alphabet, op{o.Name, o.F})
	}
	// calls that FAIL part-way: whatever they leave behind must not show in later calls
	for vi, bad := range c14FailingVariants(shared) {
		if vi != 4 && vi != 3 {
			continue
		}
		bad := bad
		alphabet = append(alphabet, op{fmt.Sprintf("print-failing-variant%d-of-shared-modular", vi+1), func() string {
			s, err := transformer.TransformJSONProtoToDSL(bad, transformer.WithIncludeSourceInformation(true))
			return s + errStr(err)
		}})
	}
	builderOp := map[int]bool{}
	for i, wm := range c13BuilderModels() {
		wm := wm
		builderOp[len(alphabet)] = true
		alphabet = append(alphabet, op{fmt.Sprintf("long-lived-weighted-builder-model%d", i+1), func() string {
			o := &wgObs{verdict: "accepted"}
			func() {
				defer func() {
					if p := recover(); p != nil {
						o = &wgObs{panic: p, verdict: fmt.Sprintf("panic %v", p)}
					}
				}()
				o.g, o.err = c13LongLived.Build(wm)
				if o.err != nil {
					o.g, o.verdict = nil, "rejected"
				}
			}()
			render := func() string { return wgObsString(o) }
			return c13Keep(render(), render)
		}})
	}
	// the state key: parser caches plus what the long-lived builder has been given (over-fine: the builder is opaque)
	stateKey := func(hist []int, last int) string {
		var sb strings.Builder
		sb.WriteString(parserCacheSnapshot())
		for _, h := range append(append([]int{}, hist...), last) {
			if builderOp[h] {
				fmt.Fprintf(&sb, "|b%d", h)
			}
		}
		return sb.String()
	}
	resetParserCaches := c13Reset
	if !resetParserCaches() {
		ctx.Note("history search needs the cache reset hook of the verification overlay")
		return
	}
	// cold outputs
	cold := make([]string, len(alphabet))
	for i, o := range alphabet {
		resetParserCaches()
		cold[i] = o.f()
	}
	// the same cold call twice must agree (nondeterminism we do not own would show here)
	for i, o := range alphabet {
		resetParserCaches()
		if again := o.f(); again != cold[i] {
			ctx.Violation("cold-call-not-deterministic", o.name+": two cold calls differ", c13Case{Sub: "history", History: []int{i}}, cold[i], again)
			return
		}
	}
	maxDepth := 3
	if ctx.Thorough() {
		maxDepth = 4
	}
	type node struct{ hist []int }
	seen := map[string]bool{}
	resetParserCaches()
	seen[parserCacheSnapshot()] = true
	frontier := []node{{}}
	k := 0
	for depth := 1; depth <= maxDepth; depth++ {
		var next []node
		for _, nd := range frontier {
			for i := range alphabet {
				k++
				// the frontier is built identically in every worker; transitions are shared out
				mine := ctx.Mine(k)
				if ctx.Expired() {
					ctx.Cap(fmt.Sprintf("wall-clock cap in the history search at depth %d", depth))
					return
				}
				if !mine && depth == maxDepth {
					continue
				}
				// successor = reset + replay of the history + one more call
				resetParserCaches()
				c13Live, c13LiveOn = c13Live[:0], mine
				for _, h := range nd.hist {
					alphabet[h].f()
				}
				out := alphabet[i].f()
				c13LiveOn = false
				snap := stateKey(nd.hist, i)
				if mine {
					// every object returned along the history still renders as it did when it was returned
					for li, lr := range c13Live {
						if now := lr.render(); now != lr.first {
							hist := append(append([]int{}, nd.hist...), i)
							var names []string
							for _, h := range hist {
								names = append(names, alphabet[h].name)
							}
							ctx.Violation("earlier-result-changed", fmt.Sprintf("in the history %v the object returned by call number %d (among those returning an object) reads differently after the later calls", names, li+1),
								c13Case{Sub: "history", History: hist, Ops: names}, lr.first, now)
							return
						}
						ctx.Flag("c13:live-results")
					}
				}
				if mine {
					ctx.Trans(1)
					ctx.State(snap)
					if depth == 3 && ctx.WantSample() && out == cold[i] {
						var hn []string
						for _, h := range nd.hist {
							hn = append(hn, alphabet[h].name)
						}
						ctx.Sample(map[string]any{"kind": "history", "earlier_calls": hn, "call": alphabet[i].name, "cache_state_bytes": len(snap), "equals_cold_output": true})
					}
					if out != cold[i] {
						hist := append(append([]int{}, nd.hist...), i)
						var names []string
						for _, h := range hist {
							names = append(names, alphabet[h].name)
						}
						ctx.Violation("result-depends-on-history", fmt.Sprintf("after history %v the call %s returns something else than in a cold process (if the state involved is not one the reset hook restores - parser caches, the long-lived builder - it may stem from an earlier transition of this search in the same worker)", names[:len(names)-1], alphabet[i].name),
							c13Case{Sub: "history", History: hist, Ops: names}, cold[i], out)
						return
					}
				}
				// no de-duplication below depth 3 (over-fine state keys cost states, hide nothing)
				if depth < 3 || !seen[snap] {
					seen[snap] = true
					if depth < maxDepth {
						next = append(next, node{append(append([]int{}, nd.hist...), i)})
					}
				}
			}
		}
		frontier = next
	}
	ctx.Flag("c13:history")
	if ctx.Shard == 0 {
		ctx.Count("history_cache_states", len(seen))
	}
}

// ---- (3) interleavings ------------------------------------------------------------------

func schedClass(site string) string {
	if site == "sched" || site == "sched-start" {
		return site
	}
	return "other"
}

var c13TwinPairs = map[string]string{"parse-doc1": "parse-doc8", "print-shared-graph-model": "print-twin-of-shared-graph-model", "plain-graph-shared": "plain-graph-twin-of-shared"}

// c13Interleave explores all schedules of the given calls within the preemption bound.
func c13Interleave(ctx *core.Ctx, names []string, bound int, replay []int, share int) bool {
	shared, graphM := c13ModularModel(), c13GraphModel()
	all := c13Ops(shared, graphM)
	byName := map[string]c13Op{}
	for _, o := range all {
		byName[o.Name] = o
	}
	var ops []c13Op
	for _, n := range names {
		ops = append(ops, byName[n])
	}
	// sequential reference results, each from a cold process state
	want := make([]string, len(ops))
	for i, o := range ops {
		resetParserCaches()
		c13SharedBuilder = graph.NewWeightedAuthorizationModelGraphBuilder()
		want[i] = o.F()
	}
	sharedBefore, graphBefore := snapshotModel(shared), snapshotModel(graphM)
	got := make([]string, len(ops))
	var res rt.SchedResult
	body := func() {
		resetParserCaches()
		c13SharedBuilder = graph.NewWeightedAuthorizationModelGraphBuilder()
		fns := make([]func(), len(ops))
		for i := range ops {
			i := i
			got[i] = "<did not finish>"
			fns[i] = func() { got[i] = ops[i].F() }
		}
		res = rt.RunThreads(2_000_000, fns...)
	}
	ok := true
	lost := false
	judge := func(pts []rt.Point) bool {
		ctx.Trans(1)
		cs := c13Case{Sub: "interleavings", Ops: names, Choices: rt.Choices(pts)}
		npre := 0
		for _, p := range pts {
			if p.Site == "sched" && p.Choice != 0 {
				npre++
			}
		}
		what := fmt.Sprintf("%v under schedule with %d preemptions", names, npre)
		switch {
		case res.Lost:
			// a thread did not come back to the scheduler within the watchdog's 60 s: blocking outside the scheduler's
			// control or a starved machine. A wall-clock observation is never a property verdict here: the exploration
			// of this set of calls ends and says so; a real deadlock shows in the free-running pass (which has a timeout).
			ctx.Cap(fmt.Sprintf("scheduler lost control of a thread while interleaving %v (watchdog 60 s); exploration of this set ended", names))
			lost = true
			return false
		case res.Deadlock:
			ctx.Violation("deadlock", what+": no thread enabled while some are unfinished", cs, "all calls return", fmt.Sprint(got))
			ok = false
		case res.Overrun:
			ctx.Violation("livelock", what+": scheduling-point horizon exceeded", cs, "", "")
			ok = false
		}
		for i, p := range res.Panics {
			if p != nil && ok {
				ctx.Violation("panic-under-interleaving", fmt.Sprintf("%s: call %s panicked: %v", what, names[i], p), cs, "", fmt.Sprint(p))
				ok = false
			}
		}
		for i := range ops {
			if ok && got[i] != want[i] {
				ctx.Violation("result-depends-on-interleaving", fmt.Sprintf("%s: %s returns something else than when run alone", what, names[i]), cs, want[i], got[i])
				ok = false
			}
		}
		if ok && (snapshotModel(shared) != sharedBefore || snapshotModel(graphM) != graphBefore) {
			ctx.Violation("shared-input-modified", what+": a shared read-only model was modified", cs, sharedBefore, snapshotModel(shared))
			ok = false
		}
		if res.Points > 2 {
			ctx.Flag("c13:scheduling-points")
		}
		ctx.State(fmt.Sprintf("%v/%d", names, npre))
		if ok && npre == 1 && ctx.WantSample() {
			ctx.Sample(map[string]any{"kind": "interleaving", "calls": names, "schedule": cs.Choices, "scheduling_points": res.Points, "preemptions": npre})
		}
		return ok
	}
	if replay != nil {
		pts := rt.Run(replay, nil, body)
		return judge(pts)
	}
	cfg := rt.Config{Class: schedClass, Budget: map[string]int{"sched": bound, "sched-start": -1, "other": 0}, MaxExec: 60000, Stop: ctx.Expired}
	if share >= 0 {
		// all workers explore this set of calls together: the subtrees below the default execution are shared out
		cfg.RootFilter = func(i int) bool { return ctx.Mine(share*7919 + i) }
	}
	st := rt.Explore(cfg, body, judge)
	ctx.Count("interleaving_executions", st.Executions)
	ctx.Count("scheduling_points_total", st.Points)
	if !st.Complete && ok && !lost {
		ctx.Cap(fmt.Sprintf("interleaving exploration of %v hit its execution cap (60000) or the wall-clock cap", names))
	}
	return ok && !lost
}

func c13Interleavings(ctx *core.Ctx) {
	if !resetParserCaches() {
		ctx.Note("interleaving exploration needs the sched variant")
		return
	}
	names := []string{}
	for _, o := range c13Ops(c13ModularModel(), c13GraphModel()) {
		names = append(names, o.Name)
	}
	k := 0
	hubs := map[string]bool{"parse-doc0": true, "print-shared-modular": true, "weighted-graph-shared": true}
	for i := 0; i < len(names); i++ {
		for j := i; j < len(names); j++ {
			// quick: every call with itself and with three hub calls (a parse, the shared-model printer, a graph builder), and the
			// two calls on the shared builder value with one another; thorough: every pair
			bothOnBuilder := strings.Contains(names[i], "on-shared-builder") && strings.Contains(names[j], "on-shared-builder")
			if twin, ok := c13TwinPairs[names[i]]; ok && twin == names[j] {
				bothOnBuilder = true // a call with its twin (same names, other content)
			}
			if !ctx.Thorough() && i != j && !hubs[names[i]] && !hubs[names[j]] && !bothOnBuilder {
				continue
			}
			k++
			if ctx.Expired() {
				ctx.Cap("wall-clock cap: not all pairs of calls interleaved")
				return
			}
			if ctx.Shard == 0 {
				ctx.Eval(1)
			}
			if c13Interleave(ctx, []string{names[i], names[j]}, 1, nil, k) {
				ctx.Nontrivial("pair:" + names[i] + "+" + names[j])
				ctx.Flag("c13:interleavings")
			}
		}
	}
	if ctx.Thorough() {
		// preemption bound 2 on the pairs of the shortest calls, and three threads with bound 1
		for _, p := range [][]string{{"parse-doc0", "parse-doc0"}, {"parse-doc0", "print-shared-modular"}, {"print-shared-modular", "print-shared-modular"}, {"print-shared-graph-model", "weighted-graph-shared"}, {"validators+utils", "merge"}} {
			k++
			if ctx.Shard == 0 {
				ctx.Eval(1)
			}
			c13Interleave(ctx, p, 2, nil, k)
		}
		for _, p := range [][]string{{"parse-doc0", "parse-doc3", "print-shared-modular"}, {"weighted-graph-shared", "weighted-graph-shared", "plain-graph-shared"}, {"merge", "modular-parse-doc2", "parse-doc1"}} {
			k++
			if ctx.Shard == 0 {
				ctx.Eval(1)
			}
			c13Interleave(ctx, p, 1, nil, k)
		}
	}
}

// ---- free-running race pass --------------------------------------------------------------

// racePass runs every pair of calls concurrently on real threads, several
// times, on shared inputs. It is executed in a binary built with -race and
// without the overlay; the race detector's reports go to stderr.
func racePass(args []string) {
	shared, graphM := c13ModularModel(), c13GraphModel()
	ops := c13Ops(shared, graphM)
	for round := 0; round < 3; round++ {
		for i := range ops {
			for j := i; j < len(ops); j++ {
				var wg sync.WaitGroup
				for g := 0; g < 4; g++ {
					for _, o := range []c13Op{ops[i], ops[j]} {
						wg.Add(1)
						o := o
						go func() { defer wg.Done(); o.F() }()
					}
				}
				wg.Wait()
			}
		}
	}
	// all calls at once
	var wg sync.WaitGroup
	for g := 0; g < 8; g++ {
		for _, o := range ops {
			wg.Add(1)
			o := o
			go func() { defer wg.Done(); o.F() }()
		}
	}
	wg.Wait()
	fmt.Println("racepass done")
}

func c13Race(ctx *core.Ctx) {
	if ctx.Shard != 0 {
		return
	}
	bin := os.Getenv("VERIF_RACE_BIN")
	if bin == "" {
		ctx.Note("race pass skipped: VERIF_RACE_BIN not set (run through bin/check)")
		return
	}
	cctx, cancel := context.WithTimeout(context.Background(), 15*time.Minute)
	defer cancel()
	cmd := exec.CommandContext(cctx, bin, "racepass")
	cmd.Env = append(os.Environ(), "GORACE=halt_on_error=0 exitcode=0 history_size=5", "GOMAXPROCS=8")
	var stderr, stdout bytes.Buffer
	cmd.Stderr = &stderr
	cmd.Stdout = &stdout
	err := cmd.Run()
	if cctx.Err() != nil {
		err = fmt.Errorf("the free-running concurrent calls did not finish within 15 minutes (normally ~10 s): deadlock suspected")
	}
	ctx.Trans(1)
	ctx.Eval(1)
	if err != nil || !strings.Contains(stdout.String(), "racepass done") {
		ctx.Violation("race-pass-failed", fmt.Sprintf("the free-running pass did not complete: %v\n%s", err, tail(stderr.String(), 3000)), c13Case{Sub: "race"}, "", "")
		return
	}
	ctx.Flag("c13:race-pass")
	reports := strings.Split(stderr.String(), "WARNING: DATA RACE")
	n := 0
	for _, r := range reports[1:] {
		if end := strings.Index(r, "=================="); end >= 0 {
			r = r[:end]
		}
		// only races with a frame in the repository's packages count (third-party internals are not the property's subject,
		// unless reached through repository code - which then shows a repository frame)
		if !strings.Contains(r, "github.com/openfga/language/pkg/go/") {
			ctx.Count("race_reports_without_repository_frame", 1)
			continue
		}
		n++
		if n <= 2 {
			ctx.Violation("data-race", "the race detector reports a data race in the repository's packages on concurrent calls with shared read-only inputs:\n"+tail(r, 2500), c13Case{Sub: "race"}, "no data race", "DATA RACE")
		}
	}
	ctx.Count("race_reports_in_repository", n)
}

func tail(s string, n int) string {
	if len(s) > n {
		return s[:n] + "…"
	}
	return s
}

func c13Run(ctx *core.Ctx) {
	// the race pass is a subprocess of its own: run it alongside the explorations
	done := make(chan struct{})
	go func() { defer close(done); c13Race(ctx) }()
	c13Inputs(ctx)
	c13History(ctx)
	c13Interleavings(ctx)
	<-done
}

func init() {
	core.Extra["racepass"] = racePass
	core.Register(&core.Check{
		ID: "C13",
		Rule: "(1) inputs untouched: every full model of the generator families, the modular models, every 97th graph model and the size sweeps (direct assignment second, third, in the middle and last among up to 128 operands), with the type definitions reversed, through printer (both options), both graph builders and the utils: strict snapshot before = after; module file slices through the merger. " +
			"(2) history independence, explicit-state search: state = contents of the process-global ANTLR caches (serialised DFAs), transitions = the real parse entry points on 8 documents (valid, invalid, modular) plus printer (also on two variants of the shared model that fail part-way), merger, both graph builders and validators, plus one weighted-graph builder value that lives as long as the process, given three models whose tuple-to-usersets resolve against different types (its inputs so far are part of the state key); successor = cache reset + replay of the history + one call; breadth first to depth 3 (quick) / 4 (thorough), no state merging below depth 3; invariant on every transition: output equals the cold output, and every object returned earlier in the history (models, graphs) still renders as it did when it was returned. " +
			"(3) interleavings: pairs of 13 calls (quick: every call with itself and with three hub calls; thorough: every pair) (parses, modular parse, DSL->JSON, printing shared models, a print that fails part-way, merge, both graph builders on a shared model, validators) as two controlled threads with caches reset, scheduling points at every statement of the repository's packages and every antlr lock operation, preemption bound 1 (thorough: bound 2 on short pairs, three threads bound 1): each result equals the sequential result, shared inputs unchanged, no deadlock, no panic. " +
			"(4) the same bodies free-running on real threads in a separate -race build: no report with a repository frame. states = cache states + schedule classes, non-trivial = distinct models / call pairs",
		Assume: []string{
			"the cooperative scheduler sees scheduling points at statement granularity in the repository's packages and at lock operations in the antlr runtime; unsynchronised accesses below that are the race detector's part",
			"the race detector only reports races that happen in the free-running pass (dynamic happens-before detection)",
			"ULID labels of operator nodes are normalised away before comparison",
		},
		Technique: "stateless exploration of thread interleavings under a preemption bound (controlled scheduler over injected scheduling points) + explicit-state BFS over parser-cache states + race-detector pass",
		Run:       c13Run,
		Finish: func(r *core.Result) error {
			for _, f := range []string{"c13:inputs", "c13:history", "c13:live-results", "c13:interleavings", "c13:scheduling-points", "c13:race-pass"} {
				if !r.Flags[f] {
					return fmt.Errorf("C13: guard %q never exercised", f)
				}
			}
			return nil
		},
		Replay: func(ctx *core.Ctx, c json.RawMessage) {
			var cs c13Case
			if err := json.Unmarshal(c, &cs); err != nil {
				panic(err)
			}
			switch cs.Sub {
			case "interleavings":
				c13Interleave(ctx, cs.Ops, 1, append([]int{}, cs.Choices...), -1)
			case "history":
				c13History(ctx)
			case "race":
				c13Race(ctx)
			default:
				c13Inputs(ctx)
			}
		},
	})
}
