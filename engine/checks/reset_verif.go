//go:build verif

package checks

import parser "github.com/openfga/language/pkg/go/gen"

// resetParserCaches returns the process-global ANTLR caches to their cold state.
func resetParserCaches() bool { parser.VerifResetStaticData(); return true }

// parserCacheSnapshot serialises the learned DFAs.
func parserCacheSnapshot() string { return parser.VerifDFASnapshot() }
