//go:build verif

package checks

import (
	parser "github.com/openfga/language/pkg/go/gen"

	"verif/rt"
)

// resetParserCaches returns the process state the harness owns to its initial value: the ANTLR static data and (sched variant)
// every package-level variable of the repository's packages.
func resetParserCaches() bool { parser.VerifResetStaticData(); rt.ResetGlobals(); return true }

// parserCacheSnapshot serialises the learned DFAs.
func parserCacheSnapshot() string { return parser.VerifDFASnapshot() }
