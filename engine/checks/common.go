// Package checks holds one file per property check plus shared harness code.
package checks

import "os"

// RepoRoot is the root of the repository under check.
func RepoRoot() string {
	if d := os.Getenv("VERIF_REPO"); d != "" {
		return d
	}
	return "/repo"
}
