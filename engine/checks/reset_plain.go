//go:build !verif

package checks

// resetParserCaches is unavailable without the verification overlay.
func resetParserCaches() bool { return false }

func parserCacheSnapshot() string { return "" }
