package checks

import (
	"encoding/json"
	"fmt"
	"strings"

	"verif/core"
	"verif/gen"
	"verif/ref"
)

// C09 — structurally invalid DSL is always rejected, wherever the defect occurs.

func c09Bases(thorough bool) []gen.Tagged {
	var out []gen.Tagged
	if thorough {
		out = append(out, gen.ShapeModels(4, 3)...)
	} else {
		out = append(out, gen.ShapeModels(3, 2)...)
	}
	out = append(out, gen.RestrModels(2)...)
	out = append(out, gen.CondModels()...)
	out = append(out, gen.MultiModels()...)
	out = append(out, gen.ModuleModels()...)
	return out
}

func c09One(ctx *core.Ctx, kind string, r *ref.Rendered, lc *layoutCase) {
	for _, viaModular := range []bool{false, true} {
		ctx.Trans(1)
		name := "TransformDSLToProto"
		if viaModular {
			name = "TransformModularDSLToProto"
		}
		got, _, err, pn := parseDoc(r.Text, viaModular)
		c := *lc
		c.Text = r.Text
		c.Extra = kind
		if pn != nil {
			// a panic is C08's finding; here it still means "not rejected with an error"
			ctx.Violation("invalid-dsl-panics", fmt.Sprintf("%s panicked on an invalid document (%s): %v\n%s", name, lc.Tag, pn, r.Text), c, "error", fmt.Sprint(pn))
			return
		}
		if err == nil {
			ctx.Violation("invalid-dsl-accepted", fmt.Sprintf("%s accepted a document that breaks a structural rule (%s)\n%s\nreturned model:\n%s", name, lc.Tag, r.Text, ref.Dump(got, laxDump)), c, "non-nil error", "accepted")
			return
		}
		if got != nil {
			ctx.Violation("model-returned-with-error", fmt.Sprintf("%s returned both an error and a model (%s)", name, lc.Tag), c, "nil model", "model")
			return
		}
	}
	ctx.State(kind)
	ctx.Nontrivial(r.Text)
	ctx.Flag("kind:" + kind)
	if ctx.WantSample() && len(lc.Choices) > 0 {
		ctx.Sample(map[string]any{"injection": lc.Tag, "text": r.Text})
	}
}

var c09Kinds = []string{"mixed-operators", "direct-not-first", "empty-restrictions", "wildcard-with-relation", "duplicate-relation",
	"duplicate-condition", "duplicate-parameter", "extend-in-model", "extended-twice", "headers", "bad-container-type"}

// sweepTailInjections: every injection of the catalogue into a small tail (one type, one condition) that FOLLOWS a size-sweep
// model. mark is the source-map key of the name an error must point at, shifted behind the sweep's declarations.
func sweepTailInjections(sizes []int, f func(k int, tag, kind, mark string, m *ref.Model) bool) {
	tail := gen.Tagged{Tag: "tail", M: &ref.Model{Schema: "1.1", Types: []ref.TypeDef{{Name: "zz_tail", Rels: []ref.Relation{
		{Name: "a", Rw: ref.U(ref.T(), ref.I(ref.C("b"), ref.C("c"))), Restr: []ref.Restriction{{Type: "user"}, {Type: "user", Condition: "zz_cond"}}},
		{Name: "b", Rw: ref.T(), Restr: []ref.Restriction{{Type: "user"}}},
		{Name: "c", Rw: ref.T(), Restr: []ref.Restriction{{Type: "user", Wildcard: true}}},
	}}}, Conds: []ref.Condition{{Name: "zz_cond", Params: []ref.Param{{Name: "x", Type: "int"}, {Name: "l", Type: "list", Generic: "string"}}, Expr: "x < 1"}}}}
	injs := gen.Injections(tail)
	k := 1 << 26
	for _, sw := range gen.SweepModelsDSL(sizes) {
		nT, nC := len(sw.M.Types), len(sw.M.Conds)
		for _, inj := range injs {
			k++
			if inj.Kind == "headers" || inj.Kind == "extend-in-model" {
				continue // document-level injections do not depend on what precedes them
			}
			im := *inj.M
			im.Types = append(append([]ref.TypeDef{}, sw.M.Types...), inj.M.Types...)
			im.Conds = append(append([]ref.Condition{}, sw.M.Conds...), inj.M.Conds...)
			if !f(k, sw.Tag+" followed by "+inj.Tag, inj.Kind, shiftMark(inj.Mark, nT, nC), &im) {
				return
			}
		}
	}
}

// shiftMark moves a source-map key (T<i>, R<i>.<j>, C<i>, P<i>.<j>) behind nT types / nC conditions.
func shiftMark(mark string, nT, nC int) string {
	if mark == "" {
		return ""
	}
	var i, j int
	switch mark[0] {
	case 'T':
		fmt.Sscanf(mark, "T%d", &i)
		return ref.MarkT(i + nT)
	case 'R':
		fmt.Sscanf(mark, "R%d.%d", &i, &j)
		return ref.MarkR(i+nT, j)
	case 'C':
		fmt.Sscanf(mark, "C%d", &i)
		return ref.MarkC(i + nC)
	case 'P':
		fmt.Sscanf(mark, "P%d.%d", &i, &j)
		return ref.MarkP(i+nC, j)
	}
	return mark
}

// c09Sweeps: whatever the large part before it does to buffers, caches and indices, the violation behind it must still be
// reported.
func c09Sweeps(ctx *core.Ctx) {
	sizes := []int{13, 65, 100}
	if ctx.Thorough() {
		sizes = gen.SweepSizesSmall
	}
	sweepTailInjections(sizes, func(k int, tag, kind, _ string, m *ref.Model) bool {
		if !ctx.Mine(k) {
			return true
		}
		if ctx.Expired() {
			ctx.Cap("wall-clock cap in the size sweeps")
			return false
		}
		ctx.Eval(1)
		// the canonical layout and a rotating quarter of the uniform styles (the subject here is size, not layout)
		keep := func(si int) bool { return si == 0 || ctx.Thorough() || si%4 == k%4 }
		forLayoutsSome(ctx, tag, m, 0, 0, keep, func(r *ref.Rendered, lc *layoutCase) { c09One(ctx, kind, r, lc); ctx.Flag("c09:sweeps") })
		return true
	})
}

// c09LongLines: every injection of the catalogue into the small tail, rendered canonically, behind ONE very long physical
// line (a comment of 70 000 bytes after the header, or trailing blanks of that length on the header's last line): code
// that reads lines with a token limit drops the rest of the document silently, and with it the defect.
func c09LongLines(ctx *core.Ctx) {
	pad := strings.Repeat("long comment ", 70000/13+1)[:70000]
	sweepTailInjections([]int{4}, func(k int, tag, kind, _ string, m *ref.Model) bool {
		if !ctx.Mine(1<<20 + k) {
			return true
		}
		if ctx.Expired() {
			ctx.Cap("wall-clock cap in the long-line injections")
			return false
		}
		text := ref.Render(m, nil).Text
		i := strings.Index(text, "\n")
		j := i + 1 + strings.Index(text[i+1:], "\n")
		if i < 0 || j <= i {
			return true
		}
		for vi, t := range []string{text[:j] + "\n# " + pad + text[j:], text[:j] + strings.Repeat(" ", 70000) + text[j:]} {
			ctx.Eval(1)
			lc := &layoutCase{Tag: fmt.Sprintf("%s behind a long line (variant %d)", tag, vi), Model: m}
			c09One(ctx, kind, &ref.Rendered{Text: t}, lc)
			ctx.Flag("c09:long-lines")
		}
		return true
	})
}

func c09Run(ctx *core.Ctx) {
	c09Sweeps(ctx)
	c09LongLines(ctx)
	k := 0
	for _, base := range c09Bases(ctx.Thorough()) {
		injs := gen.Injections(base)
		for _, inj := range injs {
			k++
			if !ctx.Mine(k) {
				continue
			}
			if ctx.Expired() {
				ctx.Cap("wall-clock cap: not all injections rendered")
				return
			}
			ctx.Eval(1)
			dev, sdev := 0, 0
			if ctx.Thorough() || k%6 == 0 {
				dev = 1
			}
			forLayouts(ctx, inj.Tag, inj.M, dev, sdev, func(r *ref.Rendered, lc *layoutCase) { c09One(ctx, inj.Kind, r, lc) })
		}
	}
}

func init() {
	core.Register(&core.Check{
		ID: "C09",
		Rule: "every injection of the catalogue into a small tail that FOLLOWS a size-sweep model (sizes 13, 65, 100 quick; long names, long lines); valid base models (all DSL-conform rewrite shapes up to 3/4 leaves, restriction lists, condition and module models) x every single injection of the rule-violation catalogue " +
			"(mixed operators at one level, direct assignment not first, [] , T:*#r, duplicate relation/condition/parameter, extend in a model file, type extended twice, both/neither header, container type without/with nested element) " +
			"at every site (operand position, nesting depth, declaration position) x renderings (canonical + every uniform style; single layout deviations for every 6th injection quick / all thorough), " +
			"through TransformDSLToProto and TransformModularDSLToProto. states = catalogue kinds seen, non-trivial = distinct injected texts",
		Assume: []string{
			"each injected text is invalid by construction (the catalogue entries are syntax or listener rules of the pinned grammar); the un-injected bases are accepted (C03)",
		},
		Technique: "bounded exhaustive fault injection: models x catalogue x sites x layouts",
		Run:       c09Run,
		Finish: func(r *core.Result) error {
			if !r.Flags["c09:long-lines"] {
				return fmt.Errorf("C09: long physical lines never exercised")
			}
			if !r.Flags["c09:sweeps"] {
				return fmt.Errorf("C09: size sweeps never exercised")
			}
			for _, k := range c09Kinds {
				if !r.Flags["kind:"+k] {
					return fmt.Errorf("C09: catalogue entry %q never exercised", k)
				}
			}
			return nil
		},
		Replay: func(ctx *core.Ctx, c json.RawMessage) {
			var lc layoutCase
			if err := json.Unmarshal(c, &lc); err != nil {
				panic(err)
			}
			c09One(ctx, lc.Extra, renderCase(&lc), &lc)
		},
	})
}
