package checks

import (
	"encoding/json"
	"fmt"
	"strings"

	"verif/core"
	"verif/gen"
	"verif/ref"
	"verif/rt"
)

// C12 — module merge outcome is deterministic and independent of file order.

func c12Set(ctx *core.Ctx, i int, fs gen.FileSet, thorough bool) {
	files := renderFiles(fs.Files, nil, nil)
	sv := schemaVersions[i%4]
	type permRes struct {
		ok    bool
		model string
	}
	var results []permRes
	orders := fileOrders(len(fs.Files))
	for _, order := range orders {
		cs := &mergeCase{Tag: fs.Tag, Files: fs.Files, Order: order, Schema: sv}
		var first *mergeObs
		var firstCh []int
		bad := false
		budget := 2
		if thorough {
			budget = 3
		}
		st := exploreMerge(ctx, files, order, sv, budget, func(o *mergeObs, ch []int) bool {
			if first == nil {
				first, firstCh = o, ch
				ctx.State(o.dump)
				return true
			}
			if o.dump != first.dump {
				c := *cs
				c.Choices = ch
				ctx.Violation("outcome-depends-on-map-order",
					fmt.Sprintf("%s [order %v]: the same file list gives different outcomes under map-iteration schedules %v and %v", fs.Tag, order, firstCh, ch),
					c, first.dump, o.dump)
				bad = true
				return false
			}
			return true
		})
		if bad {
			return
		}
		if first == nil {
			// the wall-clock cap fell between two file orders of this set: nothing was executed for this one
			ctx.Cap("wall-clock cap inside a file set (not all file orders merged)")
			return
		}
		if !st.Complete {
			ctx.Cap("a schedule exploration hit its execution cap (4000) or the wall-clock cap")
		}
		if st.Executions > 1 {
			ctx.Flag("c12:several-schedules")
		}
		pr := permRes{ok: first.err == nil && first.panic == nil}
		if pr.ok {
			pr.model = ref.Dump(first.model, ref.DumpOpts{SortTypes: true})
			ctx.Flag("c12:success")
		} else {
			ctx.Flag("c12:failure")
			n := 0
			for _, e := range first.errs {
				if !e.Syntax {
					n++
				}
			}
			if n >= 2 {
				ctx.Flag("c12:several-conflicts")
			}
		}
		results = append(results, pr)
	}
	for k := 1; k < len(results); k++ {
		cs := &mergeCase{Tag: fs.Tag, Files: fs.Files, Order: orders[k], Schema: sv}
		if results[k].ok != results[0].ok {
			ctx.Violation("verdict-depends-on-file-order", fmt.Sprintf("%s: merge succeeds for file order %v but not for %v (or vice versa)", fs.Tag, orders[0], orders[k]), cs,
				fmt.Sprint(results[0].ok), fmt.Sprint(results[k].ok))
			return
		}
		if results[k].ok && results[k].model != results[0].model {
			ctx.Violation("model-depends-on-file-order", fmt.Sprintf("%s: permuting the file list changes more than the order of type definitions", fs.Tag), cs, results[0].model, results[k].model)
			return
		}
	}
	nExt := 0
	for _, f := range fs.Files {
		if f.M != nil {
			for _, t := range f.M.Types {
				if t.Extend {
					nExt++
					break
				}
			}
		}
	}
	if nExt >= 2 {
		ctx.Flag("c12:two-extending-files")
	}
	ctx.Nontrivial(fs.Tag)
	if ctx.WantSample() && nExt >= 2 && strings.Contains(fs.Tag, "r1") {
		ctx.Sample(map[string]any{"file_set": fs.Tag, "orders": len(orders)})
	}
}

func c12Run(ctx *core.Ctx) {
	capped := false
	forMergeSets(ctx.Thorough(), func(i int) bool { return ctx.Mine(i) && !capped }, func(i int, fs gen.FileSet) {
		if ctx.Expired() {
			ctx.Cap("wall-clock cap: not all file sets merged")
			capped = true
			return
		}
		ctx.Eval(1)
		c12Set(ctx, i, fs, ctx.Thorough())
		// the same set handed over under ONE file name (base names of files from different directories, or no names at all): the
		// statement speaks of a list of files, not of a set of distinct names
		if len(fs.Files) >= 2 && (ctx.Thorough() || i%3 == 0) {
			same := gen.FileSet{Tag: fs.Tag + " [all files named same.fga]"}
			for _, f := range fs.Files {
				g := f
				g.Name = "same.fga"
				same.Files = append(same.Files, g)
			}
			ctx.Eval(1)
			ctx.Flag("c12:same-names")
			c12Set(ctx, i, same, ctx.Thorough())
		}
	})
}

func init() {
	core.Register(&core.Check{
		ID: "C12",
		Rule: "the file sets of C07 x every permutation of the file list x every map-iteration schedule of the merger's six sites within 2 (quick) / 3 (thorough) deviations " +
			"(which is every order for the maps of at most 3 keys that these sets produce). Differential oracle: for a fixed list all schedules give the same model or the same error list " +
			"(message, file, line, column, order); across permutations the verdict is the same and successful models are equal up to type-definition order. " +
			"states = distinct outcomes, non-trivial = distinct file sets",
		Assume: []string{
			"map iteration order is owned by source rewriting of every `range <map>` in pkg/go/transformer; every permutation is a behaviour the Go specification allows",
		},
		Technique: "exhaustive exploration of map-iteration schedules and file-list permutations with a differential oracle",
		Run:       c12Run,
		Finish: func(r *core.Result) error {
			for _, f := range []string{"map-sites-reached", "c12:success", "c12:failure", "c12:several-schedules", "c12:several-conflicts", "c12:two-extending-files"} {
				if !r.Flags[f] {
					return fmt.Errorf("C12: guard %q never exercised", f)
				}
			}
			return nil
		},
		Replay: func(ctx *core.Ctx, c json.RawMessage) {
			cs, files := replayMerge(c)
			var a, b *mergeObs
			rt.Run(nil, nil, func() { a = runMerge(files, cs.Order, cs.Schema) })
			rt.Run(cs.Choices, nil, func() { b = runMerge(files, cs.Order, cs.Schema) })
			if a.dump != b.dump {
				ctx.Violation("outcome-depends-on-map-order", "replayed schedule differs from the default schedule", cs, a.dump, b.dump)
			}
			c12Set(ctx, 0, gen.FileSet{Tag: cs.Tag, Files: cs.Files}, false)
		},
	})
}
