package checks

import (
	"errors"
	"fmt"
	"sort"
	"strings"

	openfgav1 "github.com/openfga/api/proto/openfga/v1"
	"google.golang.org/protobuf/proto"

	"github.com/openfga/language/pkg/go/graph"

	"verif/core"
	"verif/ref"
	"verif/rt"
)

// Shared harness of the weighted-graph checks C04, C05, C06, C10, C11.

type wgCase struct {
	Tag     string     `json:"tag,omitempty"`
	Model   *ref.Model `json:"model"`
	Choices []int      `json:"choices,omitempty"`
	Extra   string     `json:"extra,omitempty"`
	// Earlier is a model built on the same builder value before Model (builder-reuse histories)
	Earlier *ref.Model `json:"earlier,omitempty"`
}

// wgObs is one observed build.
type wgObs struct {
	g       *graph.WeightedAuthorizationModelGraph
	err     error
	panic   any
	verdict string // "accepted" | "rejected:<sentinels>" | "panic"
	// structural matching against the reference graph
	match     map[string]*graph.WeightedAuthorizationModelNode // ref node id -> real node
	structErr string
	dump      string // canonical dump (verdict, weights, wildcards, edges) for differential comparison
}

func wgBuild(pm *openfgav1.AuthorizationModel) *wgObs {
	return wgBuildOn(graph.NewWeightedAuthorizationModelGraphBuilder(), pm)
}

// sparseMetadata returns the model as a hand-written JSON or protobuf model often has it: metadata entries only for the
// relations that need one (those with a direct assignment); relations without one have no entry at all, and a type whose
// relations need none has no relation metadata. Legal, and it must change nothing.
func sparseMetadata(pm *openfgav1.AuthorizationModel) (*openfgav1.AuthorizationModel, bool) {
	c := proto.Clone(pm).(*openfgav1.AuthorizationModel)
	changed := false
	for _, td := range c.GetTypeDefinitions() {
		if td.GetMetadata() == nil {
			continue
		}
		for name, rm := range td.GetMetadata().GetRelations() {
			if len(rm.GetDirectlyRelatedUserTypes()) == 0 && rm.GetModule() == "" && rm.GetSourceInfo() == nil {
				delete(td.Metadata.Relations, name)
				changed = true
			}
		}
		if len(td.Metadata.Relations) == 0 {
			td.Metadata.Relations = nil
		}
	}
	return c, changed
}

// wgBuildOn builds on the given (possibly used) builder value.
func wgBuildOn(b *graph.WeightedAuthorizationModelGraphBuilder, pm *openfgav1.AuthorizationModel) *wgObs {
	o := &wgObs{}
	func() {
		defer func() {
			if p := recover(); p != nil {
				if d, ok := p.(rt.Divergence); ok {
					panic(d)
				}
				o.panic = p
			}
		}()
		o.g, o.err = b.Build(pm)
	}()
	switch {
	case o.panic != nil:
		o.verdict = "panic"
	case o.err == nil:
		o.verdict = "accepted"
	default:
		var s []string
		if errors.Is(o.err, graph.ErrModelCycle) {
			s = append(s, "ErrModelCycle")
		}
		if errors.Is(o.err, graph.ErrTupleCycle) {
			s = append(s, "ErrTupleCycle")
		}
		if errors.Is(o.err, graph.ErrInvalidModel) {
			s = append(s, "ErrInvalidModel")
		}
		o.verdict = "rejected:" + strings.Join(s, "+")
	}
	return o
}

// wgMatch walks reference and real graph in parallel from every relation
// node. It fills o.match and reports the first structural discrepancy.
func wgMatch(rg *ref.WG, o *wgObs) {
	o.match = map[string]*graph.WeightedAuthorizationModelNode{}
	real := o.g
	fail := func(format string, a ...any) {
		if o.structErr == "" {
			o.structErr = fmt.Sprintf(format, a...)
		}
	}
	var walk func(r *ref.GNode, x *graph.WeightedAuthorizationModelNode)
	walk = func(r *ref.GNode, x *graph.WeightedAuthorizationModelNode) {
		if prev, ok := o.match[r.ID]; ok {
			if prev != x {
				fail("reference node %s corresponds to two real nodes", r.ID)
			}
			return
		}
		o.match[r.ID] = x
		if int(x.GetNodeType()) != r.Kind {
			fail("node %s: node type %d, expected %d", r.ID, x.GetNodeType(), r.Kind)
		}
		if x.GetLabel() != r.Label {
			fail("node %s: label %q, expected %q", r.ID, x.GetLabel(), r.Label)
		}
		if r.Kind != ref.NOp && x.GetUniqueLabel() != r.Label {
			fail("node %s: unique label %q, expected %q", r.ID, x.GetUniqueLabel(), r.Label)
		}
		if r.Kind == ref.NOp && !strings.HasPrefix(x.GetUniqueLabel(), r.Label+":") {
			fail("operator node %s: unique label %q does not start with %q", r.ID, x.GetUniqueLabel(), r.Label+":")
		}
		xe, _ := real.GetEdgesFromNode(x)
		if len(xe) != len(r.Edges) {
			fail("node %s: %d outgoing edges, expected %d (%s)", r.ID, len(xe), len(r.Edges), fmtRefEdges(r))
			return
		}
		for i, re := range r.Edges {
			e := xe[i]
			if e.GetFrom() != x {
				fail("node %s edge %d: From is not the node", r.ID, i)
			}
			if int(e.GetEdgeType()) != re.Kind {
				fail("node %s edge %d -> %s: edge type %d, expected %d", r.ID, i, re.To.ID, e.GetEdgeType(), re.Kind)
			}
			if e.GetTuplesetRelation() != re.Tupleset {
				fail("node %s edge %d -> %s: tupleset label %q, expected %q", r.ID, i, re.To.ID, e.GetTuplesetRelation(), re.Tupleset)
			}
			if re.Kind != ref.ETTU {
				if got, want := strings.Join(e.GetConditions(), ","), strings.Join(re.Conds, ","); got != want {
					fail("node %s edge %d -> %s: conditions [%s], expected [%s]", r.ID, i, re.To.ID, got, want)
				}
			}
			to := e.GetTo()
			if to == nil {
				fail("node %s edge %d: nil target", r.ID, i)
				continue
			}
			if re.To.Kind == ref.NOp {
				if to.GetNodeType() != graph.OperatorNode {
					fail("node %s edge %d: target %q is not an operator node, expected %s", r.ID, i, to.GetUniqueLabel(), re.To.ID)
					continue
				}
				walk(re.To, to)
			} else {
				if to.GetUniqueLabel() != re.To.Label {
					fail("node %s edge %d: target %q, expected %q", r.ID, i, to.GetUniqueLabel(), re.To.Label)
					continue
				}
				walk(re.To, to)
			}
		}
	}
	for _, r := range rg.Order {
		if r.Kind == ref.NOp {
			continue
		}
		x, ok := real.GetNodeByID(r.Label)
		if !ok {
			fail("node %s missing", r.ID)
			continue
		}
		walk(r, x)
	}
	if len(real.GetNodes()) != len(rg.Order) {
		var extra []string
		matched := map[*graph.WeightedAuthorizationModelNode]bool{}
		for _, x := range o.match {
			matched[x] = true
		}
		for _, x := range real.GetNodes() {
			if !matched[x] {
				extra = append(extra, x.GetUniqueLabel())
			}
		}
		sort.Strings(extra)
		fail("graph has %d nodes, expected %d (unexpected: %v)", len(real.GetNodes()), len(rg.Order), extra)
	}
	// edges recorded for nodes that do not exist
	for id := range real.GetEdges() {
		if _, ok := real.GetNodeByID(id); !ok {
			fail("edges recorded for unknown node %s", id)
		}
	}
}

func fmtRefEdges(r *ref.GNode) string {
	var parts []string
	for _, e := range r.Edges {
		parts = append(parts, fmt.Sprintf("%d->%s", e.Kind, e.To.ID))
	}
	return strings.Join(parts, " ")
}

// wgDump renders an observed build canonically with structural operator ids:
// used for the differential comparison between schedules (C06).
func wgDump(rg *ref.WG, o *wgObs) string {
	if o.verdict == "panic" {
		return o.verdict
	}
	if o.verdict != "accepted" {
		// the property speaks of "accepted or rejected": which sentinel a rejection carries is not part of the verdict
		return "rejected"
	}
	if o.match == nil {
		wgMatch(rg, o)
	}
	var sb strings.Builder
	sb.WriteString("accepted\n")
	if o.structErr != "" {
		sb.WriteString("STRUCT " + o.structErr + "\n")
	}
	ids := make([]string, 0, len(o.match))
	for id := range o.match {
		ids = append(ids, id)
	}
	sort.Strings(ids)
	for _, id := range ids {
		x := o.match[id]
		wl := append([]string{}, x.GetWildcards()...)
		sort.Strings(wl)
		fmt.Fprintf(&sb, "%s w=%s wild=%v\n", id, ref.FmtWeights(x.GetWeights()), wl)
		xe, _ := o.g.GetEdgesFromNode(x)
		for i, e := range xe {
			ew := append([]string{}, e.GetWildcards()...)
			sort.Strings(ew)
			fmt.Fprintf(&sb, "  e%d kind=%d ts=%q conds=%v w=%s wild=%v\n", i, e.GetEdgeType(), e.GetTuplesetRelation(), e.GetConditions(), ref.FmtWeights(e.GetWeights()), ew)
		}
	}
	return sb.String()
}

// ---- schedule exploration ------------------------------------------------------

const wgRootSite = "graph.WeightedAuthorizationModelGraph.AssignWeights#0"

func wgClass(site string) string {
	if site == wgRootSite {
		return "roots"
	}
	if strings.HasPrefix(site, "graph.") {
		return "inner"
	}
	return "other"
}

// wgBudgets returns the exploration configurations for a graph with n
// candidate roots: roots free for small graphs, bounded otherwise, plus
// mixed and inner-only budgets.
// wgSpecial is set while a model of the special families (the ones added for particular mechanisms: interlocking cycles,
// second routes, same targets, public types on cycles ...) is explored: they also get the mixed budget in the quick tier.
var wgSpecial bool

func wgBudgets(nRoots int, thorough bool) []map[string]int {
	if !thorough {
		roots := 1
		if nRoots <= 5 {
			roots = -1
		}
		b := []map[string]int{{"roots": roots, "inner": 0}, {"roots": 0, "inner": 1}}
		if wgSpecial {
			// one start-order deviation TOGETHER with one inner-map deviation
			b = append(b, map[string]int{"roots": 1, "inner": 1})
		}
		return b
	}
	roots := 2
	if nRoots <= 6 {
		roots = -1
	}
	return []map[string]int{{"roots": roots, "inner": 0}, {"roots": 1, "inner": 1}, {"roots": 0, "inner": 2}}
}

// wgExplore builds the graph of model under every schedule of the budgets and
// calls visit for each execution. It returns false if visit stopped it.
func wgExplore(ctx *core.Ctx, pm *openfgav1.AuthorizationModel, nRoots int, visit func(o *wgObs, choices []int) bool) bool {
	ok := true
	for _, b := range wgBudgets(nRoots, ctx.Thorough()) {
		var o *wgObs
		st := rt.Explore(rt.Config{Class: wgClass, Budget: b, MaxExec: 6000, Stop: ctx.Expired},
			func() { o = wgBuild(proto.Clone(pm).(*openfgav1.AuthorizationModel)) },
			func(pts []rt.Point) bool {
				ctx.Trans(1)
				if len(pts) > 0 {
					ctx.Flag("map-sites-reached")
				}
				ok = visit(o, rt.Choices(pts))
				return ok
			})
		if !ok {
			return false
		}
		if !st.Complete {
			ctx.Cap("a schedule exploration hit its execution cap (6000) or the wall-clock cap")
		}
	}
	return true
}

// wgRoots counts the nodes that can start a traversal with effect (relation
// and operator nodes).
func wgRoots(rg *ref.WG) int {
	n := 0
	for _, nd := range rg.Order {
		if nd.Kind == ref.NRel || nd.Kind == ref.NOp {
			n++
		}
	}
	return n
}

func wgReplayBuild(cs *wgCase) (*ref.WG, *wgObs) {
	pm := ref.ToProto(cs.Model)
	rg := ref.BuildWG(cs.Model)
	var o *wgObs
	rt.Run(cs.Choices, nil, func() { o = wgBuild(pm) })
	return rg, o
}
