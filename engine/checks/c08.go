package checks

import (
	"encoding/json"
	"fmt"
	"math"
	"os"
	"reflect"
	"runtime"
	"strings"
	"time"
	"unicode/utf8"

	openfgav1 "github.com/openfga/api/proto/openfga/v1"
	"google.golang.org/protobuf/encoding/protojson"
	"google.golang.org/protobuf/proto"

	"github.com/openfga/language/pkg/go/graph"
	"github.com/openfga/language/pkg/go/transformer"

	"verif/core"
	"verif/gen"
	"verif/ref"
	"verif/rt"
)

// C08 — no public entry point panics or hangs on any input.

const c08Horizon = 50_000_000 // steps; a call exceeding it is a hang

type c08Case struct {
	Entry string          `json:"entry"`
	Text  string          `json:"text,omitempty"`
	Text2 string          `json:"text2,omitempty"`
	Model json.RawMessage `json:"model_json,omitempty"`
	Mut   string          `json:"mutation,omitempty"`
	Frag  string          `json:"fragment,omitempty"`
	Ctx   int             `json:"context,omitempty"`
	N     int             `json:"n,omitempty"`
	// Choices is the map-iteration schedule of the worst weighted build (scaled families)
	Choices []int `json:"choices,omitempty"`
	// nested pumping: Pre + Open^n + Inner + Close^n + "\n"
	Nest *nestCase `json:"nest,omitempty"`
	// TextBytes / FragBytes carry Text / Frag exactly when they are not valid UTF-8 (JSON strings cannot)
	TextBytes []byte `json:"text_bytes,omitempty"`
	FragBytes []byte `json:"fragment_bytes,omitempty"`
}

func (c c08Case) MarshalJSON() ([]byte, error) {
	type plain c08Case
	p := plain(c)
	if !utf8.ValidString(p.Text) {
		p.TextBytes = []byte(p.Text)
	}
	if !utf8.ValidString(p.Frag) {
		p.FragBytes = []byte(p.Frag)
	}
	return json.Marshal(p)
}

func (c *c08Case) UnmarshalJSON(b []byte) error {
	type plain c08Case
	var p plain
	if err := json.Unmarshal(b, &p); err != nil {
		return err
	}
	if len(p.TextBytes) > 0 {
		p.Text = string(p.TextBytes)
	}
	if len(p.FragBytes) > 0 {
		p.Frag = string(p.FragBytes)
	}
	*c = c08Case(p)
	return nil
}

type nestCase struct {
	Pre, Open, Inner, Close string
}

type c08Out struct {
	panic  any
	hang   bool
	steps  int64
	result bool
	err    error
}

// c08Call runs one entry point under the panic guard and the step horizon.
func c08Call(f func() (bool, error)) (o c08Out) {
	rt.ResetSteps(c08Horizon)
	defer func() {
		o.steps = rt.Steps()
		rt.ResetSteps(0)
		if p := recover(); p != nil {
			if _, ok := p.(rt.StepLimit); ok {
				o.hang = true
				return
			}
			o.panic = p
		}
	}()
	o.result, o.err = f()
	return
}

var validModule = "module base\n\ntype user\n\ntype doc\n  relations\n    define viewer: [user]\n"

// dslEntries are the text entry points.
var dslEntries = []struct {
	name string
	f    func(t string) (bool, error)
}{
	{"TransformDSLToProto", func(t string) (bool, error) { m, e := transformer.TransformDSLToProto(t); return m != nil, e }},
	{"TransformDSLToJSON", func(t string) (bool, error) { s, e := transformer.TransformDSLToJSON(t); return s != "", e }},
	{"TransformModularDSLToProto", func(t string) (bool, error) {
		m, _, e := transformer.TransformModularDSLToProto(t)
		return m != nil, e
	}},
	{"TransformModuleFilesToModel/1", func(t string) (bool, error) {
		m, e := transformer.TransformModuleFilesToModel([]transformer.ModuleFile{{Name: "a.fga", Contents: t}}, "1.2")
		return m != nil, e
	}},
	{"TransformModuleFilesToModel/2", func(t string) (bool, error) {
		m, e := transformer.TransformModuleFilesToModel([]transformer.ModuleFile{{Name: "base.fga", Contents: validModule}, {Name: "a.fga", Contents: t}}, "1.2")
		return m != nil, e
	}},
}

func c08Judge(ctx *core.Ctx, cs c08Case, o c08Out) bool {
	ctx.Trans(1)
	what := cs.Entry
	if cs.Text != "" {
		what += fmt.Sprintf(" on %q", cs.Text)
	}
	if cs.Mut != "" {
		what += " on model mutation " + cs.Mut
	}
	if o.panic != nil {
		ctx.Violation("panic", fmt.Sprintf("%s panicked: %v", what, o.panic), cs, "result or error", fmt.Sprint(o.panic))
		return false
	}
	if o.hang {
		ctx.Violation("hang", fmt.Sprintf("%s exceeded the horizon of %d steps", what, c08Horizon), cs, "bounded work", "horizon exceeded")
		return false
	}
	if o.result == (o.err != nil) {
		ctx.Violation("result-xor-error", fmt.Sprintf("%s returned result=%v err=%v", what, o.result, o.err), cs, "exactly one of result and error", fmt.Sprint(o.result, o.err))
		return false
	}
	if o.err != nil {
		ctx.Flag("c08:some-error")
	} else {
		ctx.Flag("c08:some-result")
	}
	return true
}

// cleanedHasUnlexable applies the documented comment rules (full-line comments,
// trailing " #" comments) and tells whether an unlexable rune remains.
func cleanedHasUnlexable(t string) bool {
	if strings.ContainsAny(t, "\"'") {
		return false // may sit inside a string literal of a condition expression
	}
	for _, line := range strings.Split(t, "\n") {
		tl := strings.TrimLeft(line, " ")
		if strings.HasPrefix(tl, "#") {
			continue
		}
		if i := strings.Index(line, " #"); i >= 0 {
			line = line[:i]
		}
		if strings.ContainsAny(line, "$é") {
			return true
		}
	}
	return false
}

// c08ModuleConsistency: the merger against the single-file entry point on one text. A file the modular parser rejects must make
// the merge fail ("a syntax error in the input is always reported through the returned error" - the merger must not drop a
// file it cannot read); when both succeed, every type, extension relation and condition the parser returned for the file is
// in the merged model. The text is merged alone, after and before a valid module.
func c08ModuleConsistency(ctx *core.Ctx, t string) {
	var pm *openfgav1.AuthorizationModel
	var exts map[string]*openfgav1.TypeDefinition
	po := c08Call(func() (bool, error) {
		var e error
		pm, exts, e = transformer.TransformModularDSLToProto(t)
		return pm != nil, e
	})
	if po.panic != nil || po.hang {
		return // reported by the entry-point loop
	}
	sets := [][]transformer.ModuleFile{
		{{Name: "a.fga", Contents: t}},
		{{Name: "base.fga", Contents: validModule}, {Name: "a.fga", Contents: t}},
		{{Name: "a.fga", Contents: t}, {Name: "base.fga", Contents: validModule}},
	}
	for si, files := range sets {
		var mm *openfgav1.AuthorizationModel
		mo := c08Call(func() (bool, error) {
			var e error
			mm, e = transformer.TransformModuleFilesToModel(files, "1.2")
			return mm != nil, e
		})
		ctx.Eval(1)
		cs := c08Case{Entry: "module-consistency", Text: t, N: si}
		if !c08Judge(ctx, cs, mo) {
			return
		}
		if po.err != nil {
			ctx.Flag("c08:module-unreadable-file")
			if mo.err == nil {
				ctx.Violation("syntax-error-not-reported", fmt.Sprintf("module file %q is rejected by TransformModularDSLToProto (%v) but TransformModuleFilesToModel (set %d) succeeds without it", t, firstLine(po.err.Error()), si), cs, "merge error", "merge succeeded")
				return
			}
			continue
		}
		if mo.err != nil || mm == nil {
			continue
		}
		ctx.Flag("c08:module-merged")
		have := map[string]*openfgav1.TypeDefinition{}
		for _, td := range mm.GetTypeDefinitions() {
			have[td.GetType()] = td
		}
		for _, td := range pm.GetTypeDefinitions() {
			mt, ok := have[td.GetType()]
			if !ok {
				ctx.Violation("declaration-lost-in-merge", fmt.Sprintf("module file %q declares type %s; the merge (set %d) succeeds without it", t, td.GetType(), si), cs, "type in merged model", "absent")
				return
			}
			for rn := range td.GetRelations() {
				if _, ok := mt.GetRelations()[rn]; !ok {
					ctx.Violation("declaration-lost-in-merge", fmt.Sprintf("module file %q declares relation %s#%s; the merge (set %d) succeeds without it", t, td.GetType(), rn, si), cs, "relation in merged model", "absent")
					return
				}
			}
		}
		_ = exts
		for cn := range pm.GetConditions() {
			if _, ok := mm.GetConditions()[cn]; !ok {
				ctx.Violation("declaration-lost-in-merge", fmt.Sprintf("module file %q declares condition %s; the merge (set %d) succeeds without it", t, cn, si), cs, "condition in merged model", "absent")
				return
			}
		}
	}
}

func firstLine(s string) string {
	if i := strings.IndexByte(s, '\n'); i >= 0 {
		return s[:i]
	}
	return s
}

func c08Text(ctx *core.Ctx, t string) {
	ctx.Eval(1)
	accepted := false
	for _, e := range dslEntries {
		o := c08Call(func() (bool, error) { return e.f(t) })
		if !c08Judge(ctx, c08Case{Entry: e.name, Text: t}, o) {
			return
		}
		if e.name == "TransformDSLToProto" {
			accepted = o.err == nil
			if o.err == nil && cleanedHasUnlexable(t) {
				ctx.Violation("syntax-error-not-reported", fmt.Sprintf("text %q contains an unlexable character outside comments and was accepted", t), c08Case{Entry: e.name, Text: t}, "error", "accepted")
				return
			}
			if o.err != nil && cleanedHasUnlexable(t) {
				ctx.Flag("c08:unlexable-rejected")
			}
		}
	}
	c08ModuleConsistency(ctx, t)
	ctx.State(fmt.Sprintf("accepted=%v", accepted))
	if ctx.WantSample() && len(t) > 60 && strings.Contains(t, "define") {
		ctx.Sample(map[string]any{"kind": "lexeme string through the DSL and module entry points", "text": t, "accepted": accepted})
	}
	if accepted {
		ctx.Nontrivial(t)
		// the accepted model must survive the rest of the pipeline
		m, _ := transformer.TransformDSLToProto(t)
		c08Model(ctx, m, "parsed from "+fmt.Sprintf("%q", t), nil)
	}
}

// c08Model pushes a protobuf model through every model entry point.
func c08Model(ctx *core.Ctx, m *openfgav1.AuthorizationModel, mut string, raw json.RawMessage) bool {
	entries := []struct {
		name string
		f    func() (bool, error)
	}{
		{"TransformJSONProtoToDSL", func() (bool, error) { s, e := transformer.TransformJSONProtoToDSL(m); return s != "", e }},
		{"TransformJSONProtoToDSL+source", func() (bool, error) {
			s, e := transformer.TransformJSONProtoToDSL(m, transformer.WithIncludeSourceInformation(true))
			return s != "", e
		}},
		{"NewAuthorizationModelGraph+ops", func() (bool, error) {
			g, e := graph.NewAuthorizationModelGraph(m)
			if e != nil {
				return g != nil, e
			}
			_ = g.GetDOT()
			_ = g.GetCycles()
			r, e2 := g.Reversed()
			if e2 != nil {
				return false, e2
			}
			_ = r.GetDOT()
			for _, a := range []string{"user", "doc#a", "doc", "nope"} {
				for _, b := range []string{"doc#a", "user", "doc#b"} {
					_, _ = g.PathExists(a, b)
				}
			}
			return true, nil
		}},
		{"WeightedAuthorizationModelGraphBuilder.Build", func() (bool, error) {
			g, e := graph.NewWeightedAuthorizationModelGraphBuilder().Build(m)
			return g != nil, e
		}},
	}
	for _, e := range entries {
		o := c08Call(e.f)
		if !c08Judge(ctx, c08Case{Entry: e.name, Mut: mut, Model: raw}, o) {
			return false
		}
	}
	return true
}

// ---- protobuf fault enumeration --------------------------------------------------

// mutSite is one place of a Go protobuf struct tree that can be degraded.
type mutSite struct {
	path string
	do   func()
}

// collectMutations walks the struct tree below v and returns every single
// degradation: pointer -> nil, slice -> nil / element -> nil / drop last,
// map -> nil / value -> nil, string -> "", oneof -> nil / wrapper with nil payload.
func collectMutations(v reflect.Value, path string, out *[]mutSite, depth int) {
	if depth > 40 {
		return
	}
	switch v.Kind() {
	case reflect.Ptr:
		if v.IsNil() {
			return
		}
		collectMutations(v.Elem(), path, out, depth+1)
	case reflect.Struct:
		t := v.Type()
		for i := 0; i < v.NumField(); i++ {
			f := v.Field(i)
			ft := t.Field(i)
			if !ft.IsExported() || !f.CanSet() {
				continue
			}
			p := path + "." + ft.Name
			switch f.Kind() {
			case reflect.Ptr:
				if !f.IsNil() {
					fv := f
					*out = append(*out, mutSite{p + "=nil", func() { fv.Set(reflect.Zero(fv.Type())) }})
					if f.Elem().Kind() == reflect.Struct {
						*out = append(*out, mutSite{p + "=empty", func() { fv.Set(reflect.New(fv.Type().Elem())) }})
					}
					collectMutations(f, p, out, depth+1)
				}
			case reflect.Slice:
				if f.Len() > 0 {
					fv := f
					*out = append(*out, mutSite{p + "=nil", func() { fv.Set(reflect.Zero(fv.Type())) }})
					// present but empty: not nil, length 0 (a nil check does not cover it)
					*out = append(*out, mutSite{p + "=empty", func() { fv.Set(reflect.MakeSlice(fv.Type(), 0, 0)) }})
					*out = append(*out, mutSite{p + "=droplast", func() { fv.Set(fv.Slice(0, fv.Len()-1)) }})
					for j := 0; j < f.Len(); j++ {
						el := f.Index(j)
						if el.Kind() == reflect.Ptr {
							ev := el
							*out = append(*out, mutSite{fmt.Sprintf("%s[%d]=nil", p, j), func() { ev.Set(reflect.Zero(ev.Type())) }})
						}
						collectMutations(el, fmt.Sprintf("%s[%d]", p, j), out, depth+1)
					}
				}
			case reflect.Map:
				if f.Len() > 0 {
					fv := f
					*out = append(*out, mutSite{p + "=nil", func() { fv.Set(reflect.Zero(fv.Type())) }})
					*out = append(*out, mutSite{p + "=empty", func() { fv.Set(reflect.MakeMap(fv.Type())) }})
					keys := f.MapKeys()
					for _, k := range keys {
						kk := k
						if f.Type().Elem().Kind() == reflect.Ptr {
							*out = append(*out, mutSite{fmt.Sprintf("%s[%v]=nil", p, k), func() { fv.SetMapIndex(kk, reflect.Zero(fv.Type().Elem())) }})
						}
						*out = append(*out, mutSite{fmt.Sprintf("%s[%v] renamed", p, k), func() {
							val := fv.MapIndex(kk)
							fv.SetMapIndex(kk, reflect.Value{})
							fv.SetMapIndex(reflect.ValueOf(kk.String()+"_x"), val)
						}})
						collectMutations(f.MapIndex(k), fmt.Sprintf("%s[%v]", p, k), out, depth+1)
					}
				}
			case reflect.String:
				if f.String() != "" {
					fv := f
					*out = append(*out, mutSite{p + `=""`, func() { fv.SetString("") }})
				}
			case reflect.Interface:
				if !f.IsNil() {
					fv := f
					*out = append(*out, mutSite{p + "=nil", func() { fv.Set(reflect.Zero(fv.Type())) }})
					// oneof wrapper with nil payload
					w := f.Elem()
					if w.Kind() == reflect.Ptr && w.Elem().Kind() == reflect.Struct && w.Elem().NumField() == 1 && w.Elem().Field(0).Kind() == reflect.Ptr {
						*out = append(*out, mutSite{p + "=wrapper(nil)", func() { fv.Set(reflect.New(w.Type().Elem())) }})
					}
					collectMutations(w, p, out, depth+1)
				}
			case reflect.Int32:
				if f.Int() != 0 {
					fv := f
					*out = append(*out, mutSite{p + "=0", func() { fv.SetInt(0) }})
					*out = append(*out, mutSite{p + "=99", func() { fv.SetInt(99) }})
				}
			}
		}
	}
}

func c08BaseModels() []gen.Tagged {
	u := []ref.Restriction{{Type: "user"}, {Type: "user", Wildcard: true, Condition: "k"}, {Type: "doc", Relation: "a"}}
	return []gen.Tagged{
		{Tag: "full", M: &ref.Model{Schema: "1.1", Types: []ref.TypeDef{
			{Name: "user"},
			{Name: "doc", Module: "m", File: "f.fga", Rels: []ref.Relation{
				{Name: "a", Rw: ref.U(ref.T(), ref.C("b"), ref.TT("b", "p")), Restr: u},
				{Name: "b", Rw: ref.D(ref.I(ref.T(), ref.C("a")), ref.TT("a", "p")), Restr: u, Module: "x", File: "g.fga"},
				{Name: "p", Rw: ref.T(), Restr: []ref.Restriction{{Type: "doc"}}},
			}},
		}, Conds: []ref.Condition{{Name: "k", Module: "m", File: "f.fga", Params: []ref.Param{{Name: "l", Type: "list", Generic: "string"}, {Name: "m", Type: "map", Generic: "int"}, {Name: "s", Type: "bool"}}, Expr: "s"}}}},
		// not DSL-expressible: the direct assignment in subtract / non-first positions, nested unary operators
		{Tag: "nonconform", M: &ref.Model{Schema: "1.1", Types: []ref.TypeDef{{Name: "user"}, {Name: "doc", Rels: []ref.Relation{
			{Name: "a", Rw: ref.D(ref.U(ref.C("b"), ref.TT("b", "p")), ref.T()), Restr: []ref.Restriction{{Type: "user"}}},
			{Name: "b", Rw: ref.U(ref.U(ref.C("a")), ref.D(ref.T(), ref.C("a"))), Restr: []ref.Restriction{{Type: "user"}}},
			{Name: "c", Rw: ref.I(ref.I(ref.C("a"), ref.C("b")), ref.T(), ref.T()), Restr: []ref.Restriction{{Type: "user"}}},
			{Name: "p", Rw: ref.T(), Restr: []ref.Restriction{{Type: "doc"}}},
		}}}}},
		// every operator kind in every structural position (base of an exclusion, first and later child of a union and of an
		// intersection) with the one direct assignment somewhere else - below a nested operator, or in the subtract position
		{Tag: "positions", M: &ref.Model{Schema: "1.1", Types: []ref.TypeDef{{Name: "user"}, {Name: "doc", Rels: []ref.Relation{
			{Name: "b", Rw: ref.T(), Restr: []ref.Restriction{{Type: "user"}}},
			{Name: "c", Rw: ref.T(), Restr: []ref.Restriction{{Type: "user"}}},
			{Name: "d1", Rw: ref.D(ref.I(ref.C("b"), ref.C("c")), ref.T()), Restr: []ref.Restriction{{Type: "user"}}},
			{Name: "d2", Rw: ref.D(ref.U(ref.C("b"), ref.C("c")), ref.T()), Restr: []ref.Restriction{{Type: "user"}}},
			{Name: "d3", Rw: ref.D(ref.D(ref.C("b"), ref.C("c")), ref.T()), Restr: []ref.Restriction{{Type: "user"}}},
			{Name: "u1", Rw: ref.U(ref.I(ref.C("b"), ref.C("c")), ref.U(ref.T())), Restr: []ref.Restriction{{Type: "user"}}},
			{Name: "u2", Rw: ref.U(ref.U(ref.C("b"), ref.C("c")), ref.I(ref.T())), Restr: []ref.Restriction{{Type: "user"}}},
			{Name: "u3", Rw: ref.U(ref.D(ref.C("b"), ref.C("c")), ref.U(ref.C("b"), ref.T())), Restr: []ref.Restriction{{Type: "user"}}},
			{Name: "i1", Rw: ref.I(ref.U(ref.C("b"), ref.C("c")), ref.U(ref.T())), Restr: []ref.Restriction{{Type: "user"}}},
			{Name: "i2", Rw: ref.I(ref.I(ref.C("b"), ref.C("c")), ref.I(ref.C("c"), ref.T())), Restr: []ref.Restriction{{Type: "user"}}},
			{Name: "i3", Rw: ref.I(ref.D(ref.C("b"), ref.C("c")), ref.D(ref.C("b"), ref.T())), Restr: []ref.Restriction{{Type: "user"}}},
		}}}}},
		// every kind of restriction as the FIRST entry of its list (a builder that carries a node over from the previous entry is
		// only exposed when there is no previous entry), single-entry lists, a tupleset whose first entry is a userset
		{Tag: "first-entries", M: &ref.Model{Schema: "1.1", Types: []ref.TypeDef{{Name: "user"}, {Name: "doc", Rels: []ref.Relation{
			{Name: "a1", Rw: ref.T(), Restr: []ref.Restriction{{Type: "doc", Relation: "a2"}, {Type: "user"}}},
			{Name: "a2", Rw: ref.T(), Restr: []ref.Restriction{{Type: "user", Wildcard: true}, {Type: "user"}}},
			{Name: "a3", Rw: ref.U(ref.T(), ref.C("a2")), Restr: []ref.Restriction{{Type: "doc", Relation: "a2", Condition: "k"}}},
			{Name: "a4", Rw: ref.I(ref.T(), ref.C("a2")), Restr: []ref.Restriction{{Type: "user", Wildcard: true, Condition: "k"}}},
			{Name: "a5", Rw: ref.TT("a2", "p"), Restr: nil},
			{Name: "p", Rw: ref.T(), Restr: []ref.Restriction{{Type: "doc", Relation: "a2"}, {Type: "doc"}}},
		}}}, Conds: []ref.Condition{{Name: "k", Params: []ref.Param{{Name: "s", Type: "bool"}}, Expr: "s"}}}},
		{Tag: "small", M: &ref.Model{Schema: "1.1", Types: []ref.TypeDef{{Name: "user"}, {Name: "doc", Rels: []ref.Relation{
			{Name: "a", Rw: ref.I(ref.C("b"), ref.T()), Restr: []ref.Restriction{{Type: "user"}}},
			{Name: "b", Rw: ref.T(), Restr: []ref.Restriction{{Type: "user"}, {Type: "doc", Relation: "b"}}},
		}}}}},
	}
}

func c08Faults(ctx *core.Ctx) {
	k := 0
	for _, bm := range c08BaseModels() {
		base := ref.ToProto(bm.M)
		var sites []mutSite
		collectMutations(reflect.ValueOf(base), "model", &sites, 0)
		n := len(sites)
		if ctx.Shard == 0 {
			ctx.Count("mutation_sites_"+bm.Tag, n)
		}
		apply := func(idx ...int) (*openfgav1.AuthorizationModel, string, bool) {
			m := proto.Clone(base).(*openfgav1.AuthorizationModel)
			var ss []mutSite
			collectMutations(reflect.ValueOf(m), "model", &ss, 0)
			if len(ss) != n {
				panic("c08: mutation sites are not stable under cloning")
			}
			var names []string
			ok := true
			for _, i := range idx {
				func() {
					defer func() {
						if recover() != nil {
							ok = false // the second site vanished with the first mutation
						}
					}()
					ss[i].do()
				}()
				names = append(names, ss[i].path)
			}
			return m, bm.Tag + ": " + strings.Join(names, " + "), ok
		}
		run := func(idx ...int) {
			k++
			if !ctx.Mine(k) {
				return
			}
			m, name, ok := apply(idx...)
			if !ok {
				return
			}
			ctx.Eval(1)
			raw, _ := protojson.Marshal(proto.Clone(base)) // the base; the mutation is named
			if c08Model(ctx, m, name, raw) {
				ctx.Nontrivial(name)
				ctx.Flag("c08:fault-enumeration")
				if ctx.WantSample() && len(idx) == 2 {
					ctx.Sample(map[string]any{"kind": "protobuf fault pair through printer and graph builders", "mutation": name})
				}
			}
		}
		for i := 0; i < n; i++ {
			run(i)
		}
		pairLimit := n
		if !ctx.Thorough() && bm.Tag != "small" {
			pairLimit = 0 // quick: pairs on the small base model only
		}
		for i := 0; i < pairLimit; i++ {
			for j := i + 1; j < n; j++ {
				if ctx.Expired() {
					ctx.Cap("wall-clock cap in protobuf fault pairs")
					return
				}
				run(i, j)
			}
		}
	}
}

// ---- pumping: growth of deterministic work ---------------------------------------

var pumpContexts = []struct{ pre, post string }{
	{"", "model\n  schema 1.1\ntype user\n"},
	{"model\n  schema 1.1\n", "\ntype user\n"},
	{"model\n  schema 1.1\ntype user\ntype ", "\n"},
	{"model\n  schema 1.1\ntype user\ntype doc\n  relations\n    define a: ", "\n"},
	{"model\n  schema 1.1\ntype user\ntype doc\n  relations\n    define a: [user", "]\n"},
	{"model\n  schema 1.1\ntype user\ntype doc\n  relations\n    define a: (b", ")\n    define b: [user]\n"},
	{"model\n  schema 1.1\ntype user\ncondition c(x: int", ") {\n  x < 1\n}\n"},
	{"model\n  schema 1.1\ntype user\ncondition c(x: int) {\n  x < 1 ", "\n}\n"},
	{"model\n  schema 1.1\ntype user\n", ""},
	{"module m\nextend type doc\n  relations\n    define a: [user]\n", ""},
}

func measure(text string) (steps int64, o c08Out) {
	// cold measurement: the statement bounds the work of a call on any input, so the parser caches
	// are returned to their initial state first (otherwise earlier, shorter texts would pay for this one)
	if !resetParserCaches() {
		panic("c08: parser cache reset hook unavailable (the steps variant must be built with the verification overlay)")
	}
	f := func() (bool, error) { m, e := transformer.TransformDSLToProto(text); return m != nil, e }
	o = c08Call(f)
	return o.steps, o
}

func c08Pump(ctx *core.Ctx) {
	frags := []string{}
	for n := 1; n <= 2; n++ {
		gen.LexemeStrings(gen.DSLLexemes, n, func(_ int, s string) { frags = append(frags, s) })
	}
	if ctx.Thorough() {
		gen.LexemeStrings(gen.DSLLexemesSmall, 3, func(i int, s string) {
			if i%3 == 0 {
				frags = append(frags, s)
			}
		})
	}
	n1 := 32
	if ctx.Thorough() {
		n1 = 64
	}
	k := 0
	base := make([]int64, len(pumpContexts))
	for _, fr := range frags {
		for ci, cx := range pumpContexts {
			k++
			if !ctx.Mine(k) {
				continue
			}
			if ctx.Expired() {
				ctx.Cap("wall-clock cap in pumping")
				return
			}
			ctx.Eval(1)
			if base[ci] == 0 {
				base[ci], _ = measure(cx.pre + cx.post)
			}
			s1, o1 := measure(cx.pre + strings.Repeat(fr, n1) + cx.post)
			s2, o2 := measure(cx.pre + strings.Repeat(fr, 2*n1) + cx.post)
			cs := c08Case{Entry: "TransformDSLToProto", Frag: fr, Ctx: ci, N: n1}
			if (o1.hang || o2.hang) && strings.Contains(fr, "\f") && core.IsKnown("F11-formfeed-cubic-lexing") {
				ctx.Known("F11-formfeed-cubic-lexing", fmt.Sprintf("fragment %q x %d exceeds the step horizon", fr, 2*n1))
				continue
			}
			if !c08Judge(ctx, cs, o1) || !c08Judge(ctx, cs, o2) {
				continue
			}
			// growth of the work beyond the constant cold-start cost of the context itself
			s1 -= base[ci]
			s2 -= base[ci]
			if s1 < 20000 {
				continue // too little work to speak of growth
			}
			exp := math.Log2(float64(s2) / float64(s1))
			ctx.Flag("c08:pumped")
			if exp > 2.5 {
				if core.IsKnown("F11-formfeed-cubic-lexing") && strings.Contains(fr, "\f") {
					ctx.Known("F11-formfeed-cubic-lexing", fmt.Sprintf("fragment %q x %d -> %d steps, x %d -> %d steps (exponent %.2f)", fr, n1, s1, 2*n1, s2, exp))
					continue
				}
				ctx.Violation("super-quadratic", fmt.Sprintf("fragment %q repeated in context %d: %d steps at n=%d, %d steps at n=%d (growth exponent %.2f > 2.5)", fr, ci, s1, n1, s2, 2*n1, exp),
					cs, "growth exponent <= 2.5", fmt.Sprintf("%.2f", exp))
				continue
			}
			ctx.State(fmt.Sprintf("exp~%.0f", math.Round(exp*2)/2))
			if ctx.WantSample() && exp > 0.8 {
				ctx.Sample(map[string]any{"kind": "pumping", "fragment": fr, "context": ci, "n": n1, "cold_steps_n": s1 + base[ci], "cold_steps_2n": s2 + base[ci], "growth_exponent": math.Round(exp*100) / 100})
			}
		}
	}
}

// ---- nested pumping: open^n inner close^n ------------------------------------------------

var nestPairs = [][2]string{
	{"(", ")"}, {"( ", " )"}, {"(b or ", ")"}, {"(b and ", ")"}, {"(b but not ", ")"}, {"(b from p or ", ")"},
	{"(", ") or b"}, {"(", ") and b"}, {"(", ") but not b"}, {"((", "))"}, {"(b or (", "))"}, {"(", " or b)"},
}
var nestInners = []string{"b", "[user]", "b from p", "b or c", "[user] or b", ""}
var nestPres = []string{"define a: ", "define a: [user] or ", "define a: c and ", "define a: c but not "}

const nestDoc = "model\n  schema 1.1\ntype user\ntype doc\n  relations\n    define b: [user]\n    define c: [user]\n    define p: [doc]\n    "

func nestText(nc *nestCase, n int) string {
	return nestDoc + nc.Pre + strings.Repeat(nc.Open, n) + nc.Inner + strings.Repeat(nc.Close, n) + "\n"
}

// c08NestOne measures one nesting shape at depth n and 2n (cold) and judges the growth of the work.
func c08NestOne(ctx *core.Ctx, nc *nestCase, n1 int) {
	base, _ := measure(nestText(nc, 1))
	s1, o1 := measure(nestText(nc, n1))
	s2, o2 := measure(nestText(nc, 2*n1))
	cs := c08Case{Entry: "TransformDSLToProto", Nest: nc, N: n1}
	for _, o := range []c08Out{o1, o2} {
		ctx.Trans(1)
		if o.panic != nil || o.hang {
			kind := "panic"
			if o.hang {
				kind = "step-horizon-exceeded"
			}
			ctx.Violation(kind, fmt.Sprintf("nesting %q %q^n %q %q^n at depth %d / %d: panic=%v, step horizon exceeded=%v", nc.Pre, nc.Open, nc.Inner, nc.Close, n1, 2*n1, o.panic, o.hang), cs, "", "")
			return
		}
	}
	if o1.err == nil && o2.err == nil {
		ctx.Flag("c08:nested-accepted")
	}
	s1 -= base
	s2 -= base
	if s1 < 20000 {
		return
	}
	exp := math.Log2(float64(s2) / float64(s1))
	ctx.Flag("c08:nested-pumped")
	ctx.State(fmt.Sprintf("nest-exp~%.0f", math.Round(exp*2)/2))
	if os.Getenv("VERIF_DEBUG_SCALED") != "" {
		fmt.Fprintf(os.Stderr, "NEST %q %q %q %q n=%d s1=%d s2=%d exp=%.2f accepted=%v\n", nc.Pre, nc.Open, nc.Inner, nc.Close, n1, s1, s2, exp, o2.err == nil)
	}
	if exp > 2.5 {
		ctx.Violation("super-quadratic", fmt.Sprintf("nesting %q %q^n %q %q^n: %d steps at depth %d, %d at depth %d (growth exponent %.2f > 2.5)", nc.Pre, nc.Open, nc.Inner, nc.Close, s1, n1, s2, 2*n1, exp), cs, "growth exponent <= 2.5", fmt.Sprintf("%.2f", exp))
		return
	}
	if ctx.WantSample() && exp > 1.2 {
		ctx.Sample(map[string]any{"kind": "nested-pumping", "pre": nc.Pre, "open": nc.Open, "inner": nc.Inner, "close": nc.Close, "n": n1, "growth_exponent": math.Round(exp*100) / 100})
	}
}

func c08Nested(ctx *core.Ctx) {
	// nesting is parsed in quadratic work with a large constant ("((" x 32 costs 1.5e7 steps): the depths stay where a quadratic
	// cost stays below the step horizon
	n1 := 16
	if ctx.Thorough() {
		n1 = 20
	}
	k := 0
	for _, pre := range nestPres {
		for _, pr := range nestPairs {
			for _, in := range nestInners {
				k++
				if !ctx.Mine(k) {
					continue
				}
				if ctx.Expired() {
					ctx.Cap("wall-clock cap in nested pumping")
					return
				}
				ctx.Eval(1)
				c08NestOne(ctx, &nestCase{Pre: pre, Open: pr[0], Inner: in, Close: pr[1]}, n1)
			}
		}
	}
}

// ---- scaled model families ---------------------------------------------------------------

// scaledFamilies: four hand-picked shapes plus every "cell" family: a model of n levels, level i holding relations x<i> and y<i>
// whose rewrites are drawn from a menu over the next level's relations (computed, union / intersection / exclusion of the two,
// direct assignment with usersets of the next level, tuple-to-userset, the sibling), the last level being [user] - or, in the
// wrapped variant, [user, doc#x0], which closes one tuple cycle over the whole chain. Every pair of menu entries is a family.
func scaledFamilies() []string {
	out := []string{"chain", "fan-in", "restrictions", "ttu-cycle",
		// one relation whose rewrite is an operator tree of depth n
		"deep:union:right", "deep:union:left", "deep:inter:right", "deep:inter:left", "deep:diff:base", "deep:diff:subtract", "deep:alternating",
		// n types, each with a TTU through every other type
		"types-ttu"}
	for x := range cellMenu {
		for y := range cellMenu {
			if cellMenu[y].sibling {
				continue
			}
			for _, wrap := range []string{"open", "wrapped"} {
				out = append(out, fmt.Sprintf("cell:%d:%d:%s", x, y, wrap))
			}
		}
	}
	return out
}

type cellEntry struct {
	tag     string
	sibling bool
	mk      func(xn, yn, sib string) (*ref.Rewrite, []ref.Restriction)
}

var cellMenu = []cellEntry{
	{"x'", false, func(xn, yn, sib string) (*ref.Rewrite, []ref.Restriction) { return ref.C(xn), nil }},
	{"x' or y'", false, func(xn, yn, sib string) (*ref.Rewrite, []ref.Restriction) { return ref.U(ref.C(xn), ref.C(yn)), nil }},
	{"x' and y'", false, func(xn, yn, sib string) (*ref.Rewrite, []ref.Restriction) { return ref.I(ref.C(xn), ref.C(yn)), nil }},
	{"x' but not y'", false, func(xn, yn, sib string) (*ref.Rewrite, []ref.Restriction) { return ref.D(ref.C(xn), ref.C(yn)), nil }},
	{"[user] or x'", false, func(xn, yn, sib string) (*ref.Rewrite, []ref.Restriction) {
		return ref.U(ref.T(), ref.C(xn)), []ref.Restriction{{Type: "user"}}
	}},
	{"[user, doc#x']", false, func(xn, yn, sib string) (*ref.Rewrite, []ref.Restriction) {
		return ref.T(), []ref.Restriction{{Type: "user"}, {Type: "doc", Relation: xn}}
	}},
	{"x' from p or y'", false, func(xn, yn, sib string) (*ref.Rewrite, []ref.Restriction) {
		return ref.U(ref.TT(xn, "p"), ref.C(yn)), nil
	}},
	{"[user, doc#x', doc#y']", false, func(xn, yn, sib string) (*ref.Rewrite, []ref.Restriction) {
		return ref.T(), []ref.Restriction{{Type: "user"}, {Type: "doc", Relation: xn}, {Type: "doc", Relation: yn}}
	}},
	{"sibling or x'", true, func(xn, yn, sib string) (*ref.Rewrite, []ref.Restriction) { return ref.U(ref.C(sib), ref.C(xn)), nil }},
}

func familyTag(fam string) string {
	var x, y int
	var wrap string
	if n, _ := fmt.Sscanf(strings.ReplaceAll(fam, ":", " "), "cell %d %d %s", &x, &y, &wrap); n == 3 {
		return fmt.Sprintf("cell family (x<i>: %s | y<i>: %s | %s)", cellMenu[x].tag, cellMenu[y].tag, wrap)
	}
	return fam
}

// f14Family: the families known finding F14 is about - the chain is closed into one tuple cycle and both relations of a
// level reach both relations of the next level through union-compatible forms (menu entries 1, 6, 7), so that a weight
// assignment starting in mid-chain makes every relation on its stack a pending cycle reference.
func f14Family(fam string) bool {
	var x, y int
	var wrap string
	if n, _ := fmt.Sscanf(strings.ReplaceAll(fam, ":", " "), "cell %d %d %s", &x, &y, &wrap); n != 3 {
		return false
	}
	both := map[int]bool{1: true, 6: true, 7: true}
	return wrap == "wrapped" && both[x] && both[y]
}

const f14 = "F14-nested-tuple-cycles-cubic"

// c08StartOrders builds the weighted graph once for every node the depth-first weight assignment can start from (the first
// answer of the start loop's map iteration; the rest of the schedule is the default) and returns the largest step count.
// c08StartOrdersCapped: the last enumeration of start nodes was cut short by the wall-clock cap.
var c08StartOrdersCapped bool

func c08StartOrders(ctx *core.Ctx, pm *openfgav1.AuthorizationModel) (worst c08Out, worstChoices []int, runs int) {
	build := func() (bool, error) {
		g, e := graph.NewWeightedAuthorizationModelGraphBuilder().Build(pm)
		return g != nil, e
	}
	var o c08Out
	pts := rt.Run(nil, nil, func() { o = c08Call(build) })
	worst, runs = o, 1
	idx := -1
	for i, p := range pts {
		if p.Site == wgRootSite {
			idx = i
			break
		}
	}
	if idx < 0 || o.panic != nil || o.hang {
		return
	}
	ctx.Flag("c08:start-orders")
	prefix := make([]int, idx) // the default answers (0) up to the start loop, spelled out
	for i := range prefix {
		prefix[i] = pts[i].Choice
	}
	for alt := 1; alt < pts[idx].N; alt++ {
		if ctx.Expired() {
			// an incomplete maximum must not be compared with a complete one: the caller drops the family
			c08StartOrdersCapped = true
			return
		}
		ch := append(append([]int{}, prefix...), alt)
		rt.Run(ch, nil, func() { o = c08Call(build) })
		runs++
		if o.panic != nil || o.hang || o.steps > worst.steps {
			worst, worstChoices = o, ch
			if o.panic != nil || o.hang {
				return
			}
		}
	}
	return
}

// c08ScaledOne measures one family at growing sizes: printer and both graph builders under the default schedule, and the
// weighted builder from every start node.
func c08ScaledOne(ctx *core.Ctx, fam string) {
	var prev, prevW int64
	var prevSize float64
	sizes := []int{8, 16, 32, 64}
	if dbg := os.Getenv("VERIF_DEBUG_SIZES"); dbg != "" {
		sizes = nil
		for _, f := range strings.Fields(dbg) {
			var v int
			fmt.Sscan(f, &v)
			sizes = append(sizes, v)
		}
	}
	for _, n := range sizes {
		if ctx.Expired() {
			ctx.Cap("wall-clock cap inside a scaled family (family not judged further)")
			return
		}
		m := scaledModel(fam, n)
		pm := ref.ToProto(m)
		// growth is judged against the length of the input (wire size of the model), not against the family parameter:
		// a family may grow faster than linearly in n
		size := float64(proto.Size(pm))
		growth := 1.0
		if prevSize > 0 {
			growth = math.Log2(size / prevSize)
		}
		if size > 12000 {
			// the step horizon stands for "a few hundred bytes stall the caller"; a quadratic cost on tens of kilobytes may
			// legitimately exceed it, so families that grow faster than linearly in n stop here
			break
		}
		var stage string
		o := c08Call(func() (bool, error) {
			stage = "TransformJSONProtoToDSL"
			if _, e := transformer.TransformJSONProtoToDSL(pm); e != nil {
				return false, e
			}
			stage = "NewAuthorizationModelGraph"
			if _, e := graph.NewAuthorizationModelGraph(pm); e != nil {
				return false, e
			}
			stage = "WeightedAuthorizationModelGraphBuilder.Build"
			g, e := graph.NewWeightedAuthorizationModelGraphBuilder().Build(pm)
			return g != nil, e
		})
		ctx.Trans(1)
		cs := c08Case{Entry: "scaled", Mut: fam, N: n}
		if o.panic != nil || o.hang {
			kind := "panic"
			if o.hang {
				kind = "step-horizon-exceeded"
			}
			ctx.Violation(kind, fmt.Sprintf("scaled model %s with n=%d (%d relations): in %s: panic=%v, step horizon (%d) exceeded=%v", familyTag(fam), n, relCount(m), stage, o.panic, int64(c08Horizon), o.hang), cs, "", "")
			return
		}
		if o.err != nil {
			ctx.Flag("c08:scaled-rejected")
		} else {
			ctx.Flag("c08:scaled-accepted")
		}
		if prev > 2000 {
			exp := math.Log2(float64(o.steps)/float64(prev)) / growth
			ctx.State(fmt.Sprintf("scaled-exp~%.0f", math.Round(exp*2)/2))
			if exp > 2.5 {
				ctx.Violation("super-quadratic", fmt.Sprintf("scaled model %s: %d steps at n=%d, %d at n=%d (exponent %.2f)", familyTag(fam), prev, n/2, o.steps, n, exp), cs, "<= 2.5", fmt.Sprintf("%.2f", exp))
				return
			}
			if ctx.WantSample() && n == 64 && strings.HasPrefix(fam, "cell") {
				ctx.Sample(map[string]any{"kind": "scaled-model", "family": familyTag(fam), "n": n, "steps_n_half": prev, "steps_n": o.steps, "growth_exponent": math.Round(exp*100) / 100})
			}
		}
		prev, prevSize = o.steps, size
		// the weighted builder from every start node
		if (n > 32 || size > 4000) && !ctx.Thorough() {
			continue // quick: start orders for models up to 4 KB and 32 levels
		}
		c08StartOrdersCapped = false
		w, wch, runs := c08StartOrders(ctx, pm)
		ctx.Trans(runs)
		if c08StartOrdersCapped {
			ctx.Cap("wall-clock cap while enumerating the start nodes of a scaled family (family not judged)")
			return
		}
		cs.Choices = wch
		if w.panic != nil || w.hang {
			kind := "panic"
			if w.hang {
				kind = "step-horizon-exceeded"
			}
			ctx.Violation(kind, fmt.Sprintf("scaled model %s with n=%d (%d relations), weight assignment started by schedule %v: panic=%v, step horizon (%d) exceeded=%v", familyTag(fam), n, relCount(m), wch, w.panic, int64(c08Horizon), w.hang), cs, "", "")
			return
		}
		if os.Getenv("VERIF_DEBUG_SCALED") != "" {
			fmt.Fprintf(os.Stderr, "SCALED %s n=%d size=%.0f default=%d worst-start=%d runs=%d\n", familyTag(fam), n, size, o.steps, w.steps, runs)
		}
		if prevW > 2000 {
			exp := math.Log2(float64(w.steps)/float64(prevW)) / growth
			ctx.State(fmt.Sprintf("scaled-start-exp~%.0f", math.Round(exp*2)/2))
			if exp > 2.5 {
				if core.IsKnown(f14) && f14Family(fam) && exp <= 4.0 {
					ctx.Known(f14, fmt.Sprintf("%s, weighted builder under its worst start node (schedule %v): %d steps at n=%d, %d at n=%d (exponent %.2f)", familyTag(fam), wch, prevW, n/2, w.steps, n, exp))
				} else {
					ctx.Violation("super-quadratic", fmt.Sprintf("scaled model %s, weighted builder under its worst start node: %d steps at n=%d, %d at n=%d (exponent %.2f)", familyTag(fam), prevW, n/2, w.steps, n, exp), cs, "<= 2.5", fmt.Sprintf("%.2f", exp))
					if os.Getenv("VERIF_DEBUG_SCALED") == "" {
						return
					}
				}
			}
		}
		prevW = w.steps
	}
	ctx.Flag("c08:scaled-families")
	ctx.Nontrivial("scaled:" + fam)
}

func relCount(m *ref.Model) int {
	n := 0
	for _, t := range m.Types {
		n += len(t.Rels)
	}
	return n
}

func c08Scaled(ctx *core.Ctx) {
	for i, fam := range scaledFamilies() {
		if !ctx.Mine(i) {
			continue
		}
		if ctx.Expired() {
			ctx.Cap("wall-clock cap in the scaled model families")
			return
		}
		ctx.Eval(1)
		c08ScaledOne(ctx, fam)
	}
}

func scaledModel(fam string, n int) *ref.Model {
	u := []ref.Restriction{{Type: "user"}}
	doc := ref.TypeDef{Name: "doc"}
	name := func(i int) string { return fmt.Sprintf("r%d", i) }
	var cx, cy int
	var wrap string
	if k, _ := fmt.Sscanf(strings.ReplaceAll(fam, ":", " "), "cell %d %d %s", &cx, &cy, &wrap); k == 3 {
		doc.Rels = append(doc.Rels, ref.Relation{Name: "p", Rw: ref.T(), Restr: []ref.Restriction{{Type: "doc"}}})
		for i := 0; i < n; i++ {
			xn, yn := fmt.Sprintf("x%d", i+1), fmt.Sprintf("y%d", i+1)
			rx, lx := cellMenu[cx].mk(xn, yn, fmt.Sprintf("y%d", i))
			ry, ly := cellMenu[cy].mk(xn, yn, fmt.Sprintf("x%d", i))
			doc.Rels = append(doc.Rels, ref.Relation{Name: fmt.Sprintf("x%d", i), Rw: rx, Restr: lx}, ref.Relation{Name: fmt.Sprintf("y%d", i), Rw: ry, Restr: ly})
		}
		last := u
		if wrap == "wrapped" {
			last = []ref.Restriction{{Type: "user"}, {Type: "doc", Relation: "x0"}}
		}
		doc.Rels = append(doc.Rels, ref.Relation{Name: fmt.Sprintf("x%d", n), Rw: ref.T(), Restr: last}, ref.Relation{Name: fmt.Sprintf("y%d", n), Rw: ref.T(), Restr: u})
		return &ref.Model{Schema: "1.1", Types: []ref.TypeDef{{Name: "user"}, doc}}
	}
	if strings.HasPrefix(fam, "deep:") {
		leaf := func(i int) *ref.Rewrite { return ref.C(name(i % 3)) }
		rw := leaf(0)
		for i := 1; i <= n; i++ {
			l := leaf(i)
			switch fam {
			case "deep:union:right":
				rw = ref.U(l, rw)
			case "deep:union:left":
				rw = ref.U(rw, l)
			case "deep:inter:right":
				rw = ref.I(l, rw)
			case "deep:inter:left":
				rw = ref.I(rw, l)
			case "deep:diff:base":
				rw = ref.D(rw, l)
			case "deep:diff:subtract":
				rw = ref.D(l, rw)
			default:
				switch i % 3 {
				case 0:
					rw = ref.U(l, rw)
				case 1:
					rw = ref.I(rw, l)
				default:
					rw = ref.D(l, rw)
				}
			}
		}
		for i := 0; i < 3; i++ {
			doc.Rels = append(doc.Rels, ref.Relation{Name: name(i), Rw: ref.T(), Restr: u})
		}
		doc.Rels = append(doc.Rels, ref.Relation{Name: "deep", Rw: rw})
		return &ref.Model{Schema: "1.1", Types: []ref.TypeDef{{Name: "user"}, doc}}
	}
	if fam == "types-ttu" {
		m := &ref.Model{Schema: "1.1", Types: []ref.TypeDef{{Name: "user"}}}
		var parents []ref.Restriction
		for i := 0; i < n; i++ {
			parents = append(parents, ref.Restriction{Type: fmt.Sprintf("t%d", i)})
		}
		for i := 0; i < n; i++ {
			m.Types = append(m.Types, ref.TypeDef{Name: fmt.Sprintf("t%d", i), Rels: []ref.Relation{
				{Name: "p", Rw: ref.T(), Restr: parents},
				{Name: "v", Rw: ref.U(ref.T(), ref.TT("v", "p")), Restr: u},
			}})
		}
		return m
	}
	switch fam {
	case "chain":
		doc.Rels = append(doc.Rels, ref.Relation{Name: name(0), Rw: ref.T(), Restr: u})
		for i := 1; i < n; i++ {
			doc.Rels = append(doc.Rels, ref.Relation{Name: name(i), Rw: ref.C(name(i - 1))})
		}
	case "fan-in":
		var ch []*ref.Rewrite
		for i := 0; i < n; i++ {
			doc.Rels = append(doc.Rels, ref.Relation{Name: name(i), Rw: ref.T(), Restr: u})
			ch = append(ch, ref.C(name(i)))
		}
		doc.Rels = append(doc.Rels, ref.Relation{Name: "all", Rw: ref.U(ch...)})
	case "restrictions":
		var rs []ref.Restriction
		for i := 0; i < n; i++ {
			rs = append(rs, ref.Restriction{Type: "user", Condition: fmt.Sprintf("c%d", i%4)})
		}
		doc.Rels = append(doc.Rels, ref.Relation{Name: "a", Rw: ref.T(), Restr: rs})
	case "ttu-cycle":
		doc.Rels = append(doc.Rels, ref.Relation{Name: "p", Rw: ref.T(), Restr: []ref.Restriction{{Type: "doc"}}})
		for i := 0; i < n; i++ {
			doc.Rels = append(doc.Rels, ref.Relation{Name: name(i), Rw: ref.U(ref.T(), ref.TT(name((i+1)%n), "p")), Restr: u})
		}
	}
	return &ref.Model{Schema: "1.1", Types: []ref.TypeDef{{Name: "user"}, doc}}
}

// ---- raw bytes ---------------------------------------------------------------------------

// rawByteElems: one representative per class of byte sequence a text input can contain beyond the lexeme alphabet: control
// characters, DEL, stray continuation and lead bytes (invalid UTF-8), overlong and surrogate encodings, a code point beyond
// U+10FFFF, the byte-order mark, Unicode line separators and spaces, a four-byte character, a lone carriage return, VT.
var rawByteElems = []string{"\x00", "\x01", "\x1b", "\x7f", "\x80", "\xbf", "\xc3", "\xc3(", "\xc0\xaf", "\xff", "\xfe\xff", "\xef\xbb\xbf",
	"\xe2\x80\xa8", "\xe2\x80\xa9", "\xc2\x85", "\xc2\xa0", "\xe3\x80\x80", "\xf0\x9f\x98\x80", "\xed\xa0\x80", "\xf4\x90\x80\x80", "\xe2\x80", "\v", "\r", "\b"}

var rawByteDocs = []string{
	"model\n  schema 1.1\ntype user\ntype doc\n  relations\n    define a: [user, user:*, doc#a with c] or b but not a from p\n    define b: [user]\n    define p: [doc]\ncondition c(x: int, y: list<string>) {\n  x < 1\n}\n",
	"module m\ntype user\nextend type doc\n  relations\n    define a: [user]\n",
	"model\n  schema 1.1\ntype user # trailing\n# full line\n  # indented\ntype doc\n",
}

// hasRawUnlexable: outside comments (and outside documents that hold a string literal) none of these bytes belongs to any
// token of the lexer grammar; a lone carriage return is a line end and is not judged.
func hasRawUnlexable(t string) bool {
	if strings.ContainsAny(t, "\"'") {
		return false
	}
	for _, line := range strings.Split(t, "\n") {
		tl := strings.TrimLeft(line, " ")
		if strings.HasPrefix(tl, "#") {
			continue
		}
		if i := strings.Index(line, " #"); i >= 0 {
			line = line[:i]
		}
		for i := 0; i < len(line); i++ {
			b := line[i]
			if b >= 0x80 || b == 0x7f || (b < 0x20 && b != '\t' && b != '\r' && b != '\f') {
				return true
			}
		}
	}
	return false
}

// c08RawText: one text with raw bytes through the text entry points.
func c08RawText(ctx *core.Ctx, t string) {
	ctx.Count("raw-byte texts", 1)
	ctx.Flag("c08:raw-bytes")
	for _, e := range dslEntries {
		o := c08Call(func() (bool, error) { return e.f(t) })
		ctx.Eval(1)
		if !c08Judge(ctx, c08Case{Entry: e.name, Text: t}, o) {
			return
		}
		if e.name == "TransformDSLToProto" && hasRawUnlexable(t) {
			if o.err == nil {
				ctx.Violation("syntax-error-not-reported", fmt.Sprintf("text %q contains a byte sequence no token can hold, outside comments, and was accepted", t), c08Case{Entry: e.name, Text: t}, "error", "accepted")
				return
			}
			ctx.Flag("c08:raw-unlexable-rejected")
		}
		if e.name == "TransformDSLToProto" && o.err == nil {
			ctx.Flag("c08:raw-accepted")
			m, _ := transformer.TransformDSLToProto(t)
			c08Model(ctx, m, "parsed from "+fmt.Sprintf("%q", t), nil)
		}
	}
	c08ModuleConsistency(ctx, t)
}

// c08RawBytes: every byte element inserted at every byte offset of every document prefix and of three complete documents
// (pairs of elements at every third offset), through the text entry points; the same elements at every offset of a valid JSON
// model and of a valid manifest; and each element (alone, and followed by a blank, a line end, a comment marker) pumped in
// every pumping context.
func c08RawBytes(ctx *core.Ctx) {
	docs := append(append([]string{}, gen.DSLContexts...), rawByteDocs...)
	k := 0
	one := func(t string) {
		k++
		if ctx.Mine(k) {
			c08RawText(ctx, t)
		}
	}
	for _, d := range docs {
		if ctx.Expired() {
			ctx.Cap("wall-clock cap in raw-byte insertion")
			return
		}
		for off := 0; off <= len(d); off++ {
			if ctx.Expired() {
				ctx.Cap("wall-clock cap in raw-byte insertion")
				return
			}
			for _, el := range rawByteElems {
				one(d[:off] + el + d[off:])
			}
			if off%3 == 0 || ctx.Thorough() {
				for _, e1 := range rawByteElems {
					for _, e2 := range rawByteElems {
						one(d[:off] + e1 + e2 + d[off:])
					}
				}
			}
		}
	}
	// JSON and manifest documents
	js := `{"schema_version":"1.1","type_definitions":[{"type":"user"},{"type":"doc","relations":{"a":{"this":{}}},"metadata":{"relations":{"a":{"directly_related_user_types":[{"type":"user"}]}}}}]}`
	mod := "schema: '1.2'\ncontents:\n  - a.fga\n  - \"b/c.fga\"\n"
	for off := 0; off <= len(js); off++ {
		for _, el := range rawByteElems {
			k++
			if !ctx.Mine(k) {
				continue
			}
			t := js[:off] + el + js[off:]
			ctx.Eval(1)
			o := c08Call(func() (bool, error) { p, e := transformer.TransformJSONStringToDSL(t); return p != nil, e })
			c08Judge(ctx, c08Case{Entry: "TransformJSONStringToDSL", Text: t}, o)
		}
	}
	for off := 0; off <= len(mod); off++ {
		for _, el := range rawByteElems {
			k++
			if !ctx.Mine(k) {
				continue
			}
			t := mod[:off] + el + mod[off:]
			ctx.Eval(1)
			o := c08Call(func() (bool, error) { p, e := transformer.TransformModFile(t); return p != nil, e })
			c08Judge(ctx, c08Case{Entry: "TransformModFile", Text: t}, o)
		}
	}
	// pumping
	n1 := 32
	if ctx.Thorough() {
		n1 = 64
	}
	base := make([]int64, len(pumpContexts))
	for _, el := range rawByteElems {
		for _, suf := range []string{"", " ", "\n", "#", "a"} {
			fr := el + suf
			for ci, cx := range pumpContexts {
				k++
				if !ctx.Mine(k) {
					continue
				}
				if ctx.Expired() {
					ctx.Cap("wall-clock cap in raw-byte pumping")
					return
				}
				ctx.Eval(1)
				if base[ci] == 0 {
					base[ci], _ = measure(cx.pre + cx.post)
				}
				s1, o1 := measure(cx.pre + strings.Repeat(fr, n1) + cx.post)
				s2, o2 := measure(cx.pre + strings.Repeat(fr, 2*n1) + cx.post)
				cs := c08Case{Entry: "TransformDSLToProto", Frag: fr, Ctx: ci, N: n1}
				if !c08Judge(ctx, cs, o1) || !c08Judge(ctx, cs, o2) {
					continue
				}
				s1 -= base[ci]
				s2 -= base[ci]
				if s1 < 20000 {
					continue
				}
				exp := math.Log2(float64(s2) / float64(s1))
				ctx.Flag("c08:raw-pumped")
				if exp > 2.5 {
					ctx.Violation("super-quadratic", fmt.Sprintf("fragment %q repeated in context %d: %d steps at n=%d, %d steps at n=%d (growth exponent %.2f > 2.5)", fr, ci, s1, n1, s2, 2*n1, exp),
						cs, "growth exponent <= 2.5", fmt.Sprintf("%.2f", exp))
				}
			}
		}
	}
}

// ---- protobuf-only shapes, scaled -----------------------------------------------------------

// protoShape builds a model no DSL text can produce: several direct assignments under one operator, restriction lists that
// repeat one entry, operators nested without need. The printer rejects most of them - after having done its work - and the
// graph builders accept them.
func protoShape(shape string, n int) *openfgav1.AuthorizationModel {
	u := ref.Restriction{Type: "user"}
	rep := func(x ref.Restriction, k int) []ref.Restriction {
		out := make([]ref.Restriction, k)
		for i := range out {
			out[i] = x
		}
		return out
	}
	this := func(k int) []*ref.Rewrite {
		out := make([]*ref.Rewrite, k)
		for i := range out {
			out[i] = ref.T()
		}
		return out
	}
	var rel ref.Relation
	switch shape {
	case "union of n direct assignments, n times the same restriction":
		rel = ref.Relation{Name: "a", Rw: &ref.Rewrite{Kind: ref.Union, Ch: this(n)}, Restr: rep(u, n)}
	case "intersection of n direct assignments, n restrictions alternating plain and conditioned":
		rs := make([]ref.Restriction, n)
		for i := range rs {
			rs[i] = u
			if i%2 == 1 {
				rs[i].Condition = "k"
			}
		}
		rel = ref.Relation{Name: "a", Rw: &ref.Rewrite{Kind: ref.Inter, Ch: this(n)}, Restr: rs}
	case "one direct assignment, n times the same userset restriction":
		rel = ref.Relation{Name: "a", Rw: ref.T(), Restr: append(rep(ref.Restriction{Type: "doc", Relation: "b"}, n), u)}
	case "n unary unions around one direct assignment":
		rw := ref.T()
		for i := 0; i < n; i++ {
			rw = &ref.Rewrite{Kind: ref.Union, Ch: []*ref.Rewrite{rw}}
		}
		rel = ref.Relation{Name: "a", Rw: rw, Restr: []ref.Restriction{u}}
	case "union of n times the same computed relation and n times the same tuple to userset":
		var ch []*ref.Rewrite
		for i := 0; i < n; i++ {
			ch = append(ch, ref.C("b"), ref.TT("b", "p"))
		}
		rel = ref.Relation{Name: "a", Rw: &ref.Rewrite{Kind: ref.Union, Ch: ch}}
	default:
		panic("protoShape: " + shape)
	}
	return ref.ToProto(&ref.Model{Schema: "1.1", Types: []ref.TypeDef{{Name: "user"}, {Name: "doc", Rels: []ref.Relation{
		rel,
		{Name: "b", Rw: ref.T(), Restr: []ref.Restriction{u}},
		{Name: "p", Rw: ref.T(), Restr: []ref.Restriction{{Type: "doc"}}},
	}}}, Conds: []ref.Condition{{Name: "k", Params: []ref.Param{{Name: "x", Type: "int"}}, Expr: "x < 1"}}})
}

var protoShapes = []string{
	"union of n direct assignments, n times the same restriction",
	"intersection of n direct assignments, n restrictions alternating plain and conditioned",
	"one direct assignment, n times the same userset restriction",
	"n unary unions around one direct assignment",
	"union of n times the same computed relation and n times the same tuple to userset",
}

var protoStages = []struct {
	name string
	f    func(pm *openfgav1.AuthorizationModel) (bool, error)
}{
	{"TransformJSONProtoToDSL", func(pm *openfgav1.AuthorizationModel) (bool, error) {
		s, e := transformer.TransformJSONProtoToDSL(pm)
		return s != "", e
	}},
	{"NewAuthorizationModelGraph", func(pm *openfgav1.AuthorizationModel) (bool, error) {
		g, e := graph.NewAuthorizationModelGraph(pm)
		if e == nil {
			_ = g.GetDOT()
			if r, e2 := g.Reversed(); e2 == nil {
				_ = r.GetDOT()
			}
			g.GetCycles()
		}
		return g != nil, e
	}},
	{"WeightedAuthorizationModelGraphBuilder.Build", func(pm *openfgav1.AuthorizationModel) (bool, error) {
		g, e := graph.NewWeightedAuthorizationModelGraphBuilder().Build(pm)
		return g != nil, e
	}},
}

// c08ProtoShapeOne measures one shape through one stage at doubling sizes. Work is measured twice: in instrumented steps, and
// in bytes allocated (runtime.MemStats.TotalAlloc: monotonic, unaffected by garbage collection) - the steps do not see the
// copying behind string concatenation and append, which is where a quadratic term per item hides.
func c08ProtoShapeOne(ctx *core.Ctx, shape string, si int) {
	st := protoStages[si]
	var prevSteps, prevBytes int64
	var prevSize float64
	sizes := []int{16, 32, 64, 128}
	if ctx.Thorough() {
		sizes = append(sizes, 256)
	}
	// growth is judged against the part of the wire size that grows with n (the fixed part - the other types and relations -
	// would make a quadratic cost look steeper at small n)
	base := float64(proto.Size(protoShape(shape, 0)))
	for _, n := range sizes {
		pm := protoShape(shape, n)
		size := float64(proto.Size(pm)) - base
		var ms0, ms1 runtime.MemStats
		runtime.ReadMemStats(&ms0)
		o := c08Call(func() (bool, error) { return st.f(pm) })
		runtime.ReadMemStats(&ms1)
		bytes := int64(ms1.TotalAlloc - ms0.TotalAlloc)
		ctx.Trans(1)
		ctx.Eval(1)
		cs := c08Case{Entry: "proto-shape", Mut: shape, N: n, Ctx: si}
		if o.panic != nil || o.hang {
			kind := "panic"
			if o.hang {
				kind = "step-horizon-exceeded"
			}
			ctx.Violation(kind, fmt.Sprintf("protobuf shape (%s) with n=%d (%.0f bytes) through %s: panic=%v, step horizon (%d) exceeded=%v", shape, n, size, st.name, o.panic, int64(c08Horizon), o.hang), cs, "", "")
			return
		}
		if o.result == (o.err != nil) {
			ctx.Violation("result-xor-error", fmt.Sprintf("protobuf shape (%s) with n=%d through %s: result=%v err=%v", shape, n, st.name, o.result, o.err), cs, "", "")
			return
		}
		if os.Getenv("VERIF_DEBUG_SCALED") != "" {
			fmt.Fprintf(os.Stderr, "PROTOSHAPE %q %s n=%d size=%.0f steps=%d bytes=%d err=%v\n", shape, st.name, n, size, o.steps, bytes, o.err != nil)
		}
		if prevSize > 0 {
			growth := math.Log2(size / prevSize)
			if prevSteps > 2000 {
				if exp := math.Log2(float64(o.steps)/float64(prevSteps)) / growth; exp > 2.5 {
					ctx.Violation("super-quadratic", fmt.Sprintf("protobuf shape (%s) through %s: %d steps at n=%d, %d at n=%d (exponent %.2f against the growing part of the wire size)", shape, st.name, prevSteps, n/2, o.steps, n, exp), cs, "<= 2.5", fmt.Sprintf("%.2f", exp))
					return
				}
			}
			if prevBytes > 1<<20 {
				if exp := math.Log2(float64(bytes)/float64(prevBytes)) / growth; exp > 2.5 {
					ctx.Violation("super-quadratic", fmt.Sprintf("protobuf shape (%s) through %s: %d bytes allocated at n=%d, %d at n=%d (exponent %.2f against the growing part of the wire size)", shape, st.name, prevBytes, n/2, bytes, n, exp), cs, "<= 2.5", fmt.Sprintf("%.2f", exp))
					return
				}
			}
		}
		prevSteps, prevBytes, prevSize = o.steps, bytes, size
	}
	ctx.Flag("c08:proto-shapes")
}

func c08ProtoShapes(ctx *core.Ctx) {
	k := 0
	for _, shape := range protoShapes {
		for si := range protoStages {
			k++
			if !ctx.Mine(k) {
				continue
			}
			if ctx.Expired() {
				ctx.Cap("wall-clock cap in the protobuf shapes")
				return
			}
			c08ProtoShapeOne(ctx, shape, si)
		}
	}
}

// ---- JSON and YAML texts ------------------------------------------------------------

var jsonTokens = []string{"{", "}", "[", "]", ":", ",", `"schema_version"`, `"type_definitions"`, `"type"`, `"relations"`, `"this"`, `"union"`, `"child"`,
	`"metadata"`, `"conditions"`, `"a"`, `"1.1"`, "null", "true", "1", `"computedUserset"`, `"relation"`, `"difference"`, `"base"`, " "}

var yamlTokens = []string{"schema", "contents", ":", " ", "\n", "-", "'1.2'", "1.2", "[", "]", "{", "}", ",", "a.fga", "'", "\"", "#", "&a", "*a", "!!str", "|", ">", "  ", "\t", "%", "---", "...", "? ", "~", "../"}

func c08JSONYAML(ctx *core.Ctx) {
	jyCapped := false
	defer func() {
		if jyCapped {
			ctx.Cap("wall-clock cap inside the JSON / YAML token strings")
		}
	}()
	k := 3
	if ctx.Thorough() {
		k = 4
	}
	base := 0
	for n := 0; n <= k; n++ {
		gen.LexemeStrings(jsonTokens, n, func(i int, s string) {
			if !ctx.Mine(base+i) || (i%256 == 0 && ctx.Expired()) || jyCapped {
				jyCapped = jyCapped || ctx.Expired()
				return
			}
			ctx.Eval(1)
			o := c08Call(func() (bool, error) { p, e := transformer.TransformJSONStringToDSL(s); return p != nil, e })
			c08Judge(ctx, c08Case{Entry: "TransformJSONStringToDSL", Text: s}, o)
		})
		base += gen.Pow(len(jsonTokens), n)
		gen.LexemeStrings(yamlTokens, n, func(i int, s string) {
			if !ctx.Mine(base+i) || (i%256 == 0 && ctx.Expired()) || jyCapped {
				jyCapped = jyCapped || ctx.Expired()
				return
			}
			ctx.Eval(1)
			o := c08Call(func() (bool, error) { p, e := transformer.TransformModFile(s); return p != nil, e })
			c08Judge(ctx, c08Case{Entry: "TransformModFile", Text: s}, o)
		})
		base += gen.Pow(len(yamlTokens), n)
	}
	// JSON value replacement in valid model documents: every value position replaced by every other JSON value kind
	if ctx.Shard == 0 {
		repl := []string{"null", "{}", "[]", `""`, "0", "true", `"x"`, `{"this":{}}`, `[null]`}
		for _, bm := range c08BaseModels() {
			js, _ := protojson.Marshal(ref.ToProto(bm.M))
			var doc any
			json.Unmarshal(js, &doc)
			var positions [][]any
			var walkJ func(v any, path []any)
			walkJ = func(v any, path []any) {
				positions = append(positions, append([]any{}, path...))
				switch x := v.(type) {
				case map[string]any:
					for kx, vx := range x {
						walkJ(vx, append(path, kx))
					}
				case []any:
					for ix, vx := range x {
						walkJ(vx, append(path, ix))
					}
				}
			}
			walkJ(doc, nil)
			for _, pth := range positions {
				for _, r := range repl {
					var d2 any
					json.Unmarshal(js, &d2)
					var rv any
					json.Unmarshal([]byte(r), &rv)
					d2 = setPath(d2, pth, rv)
					b, _ := json.Marshal(d2)
					ctx.Eval(1)
					o := c08Call(func() (bool, error) { p, e := transformer.TransformJSONStringToDSL(string(b)); return p != nil, e })
					c08Judge(ctx, c08Case{Entry: "TransformJSONStringToDSL", Text: string(b)}, o)
					ctx.Flag("c08:json-replacement")
				}
			}
		}
	}
}

func setPath(doc any, path []any, v any) any {
	if len(path) == 0 {
		return v
	}
	switch x := doc.(type) {
	case map[string]any:
		k := path[0].(string)
		x[k] = setPath(x[k], path[1:], v)
		return x
	case []any:
		i := path[0].(int)
		x[i] = setPath(x[i], path[1:], v)
		return x
	}
	return doc
}

// c08MergeSets: the module file sets of C07 (conflicts, malformed members, extensions) through the merger, in the
// canonical layout and in one rotating uniform layout style: no panic, no hang, model xor error.
func c08MergeSets(ctx *core.Ctx) {
	styles := uniformStyles()
	// the look-alike sets of C16 first (conflicts behind longer look-alike names, keywords used as type names inside
	// restriction lists): under EVERY uniform style - the error paths of the merger look at the text of the files
	sets := c16MergeSets()
	nAlike := len(sets)
	sets = append(sets, mergeSets(false)...)
	for i, fs := range sets {
		if !ctx.Mine(i) {
			continue
		}
		if ctx.Expired() {
			ctx.Cap("wall-clock cap in module file sets")
			return
		}
		type variant struct {
			st  map[string]int
			rev bool
		}
		vs := []variant{{nil, false}, {styles[1+i%(len(styles)-1)], false}, {nil, true}}
		if i < nAlike {
			vs = vs[:0]
			for _, st := range styles {
				vs = append(vs, variant{st, false})
			}
			vs = append(vs, variant{nil, true})
		}
		for _, v := range vs {
			st, si := v.st, 0
			if v.rev {
				si = 2
			}
			files := renderFiles(fs.Files, st, nil)
			if si == 2 {
				// the same files in reverse order (a malformed member first, an extension before its type)
				if len(files) < 2 {
					continue
				}
				for a, b := 0, len(files)-1; a < b; a, b = a+1, b-1 {
					files[a], files[b] = files[b], files[a]
				}
			}
			mods := make([]transformer.ModuleFile, len(files))
			for k, f := range files {
				mods[k] = transformer.ModuleFile{Name: f.spec.Name, Contents: f.text}
			}
			ctx.Eval(1)
			o := c08Call(func() (bool, error) { m, e := transformer.TransformModuleFilesToModel(mods, "1.2"); return m != nil, e })
			var sb strings.Builder
			for _, f := range files {
				sb.WriteString("--- " + f.spec.Name + "\n" + f.text + "\n")
			}
			if !c08Judge(ctx, c08Case{Entry: "TransformModuleFilesToModel", Text: sb.String(), Mut: fs.Tag}, o) {
				return
			}
			ctx.Flag("c08:module-file-sets")
		}
	}
}

// c08Corpus: every DSL text of the shared test-data corpus and all its single mutations (each piece deleted; each
// lexeme of the reduced alphabet inserted at each piece boundary) through the DSL entry points. quick: mutations for
// every 12th document.
func c08Corpus(ctx *core.Ctx) {
	docs := gen.Corpus(RepoRoot())
	if ctx.Shard == 0 {
		ctx.Count("corpus_documents", len(docs))
	}
	base := 1 << 26
	// three complete documents of my own (every construct of the grammar) with all their single mutations, in every tier
	for _, t := range rawByteDocs {
		gen.CorpusMutations(t, gen.DSLLexemesSmall, func(i int, s string) {
			if ctx.Mine(base + i) {
				c08Text(ctx, s)
			}
		})
		base += 1 << 18
	}
	for di, d := range docs {
		if ctx.Expired() {
			ctx.Cap("wall-clock cap in corpus mutations")
			return
		}
		if ctx.Mine(di) {
			c08TextLight(ctx, d.Text)
		}
		if !ctx.Thorough() && di%12 != 0 {
			continue
		}
		if len(d.Text) > 6000 {
			continue
		}
		gen.CorpusMutations(d.Text, gen.DSLLexemesSmall, func(i int, s string) {
			if ctx.Mine(base + i) {
				c08TextLight(ctx, s)
				ctx.Flag("c08:corpus-mutations")
			}
		})
		base += 1 << 18
	}
}

// c08TextLight: the two parser entry points only (the module and JSON wrappers add nothing on long documents).
func c08TextLight(ctx *core.Ctx, t string) {
	ctx.Eval(1)
	for _, e := range dslEntries[:1] {
		o := c08Call(func() (bool, error) { return e.f(t) })
		if !c08Judge(ctx, c08Case{Entry: e.name, Text: t}, o) {
			return
		}
		if o.err == nil && cleanedHasUnlexable(t) {
			ctx.Violation("syntax-error-not-reported", fmt.Sprintf("text %q contains an unlexable character outside comments and was accepted", t), c08Case{Entry: e.name, Text: t}, "error", "accepted")
			return
		}
	}
	o := c08Call(func() (bool, error) { m, _, e := transformer.TransformModularDSLToProto(t); return m != nil, e })
	c08Judge(ctx, c08Case{Entry: "TransformModularDSLToProto", Text: t}, o)
}

func c08Run(ctx *core.Ctx) {
	if ctx.Shard == 0 {
		// the step instrumentation must be live
		o := c08Call(func() (bool, error) {
			m, e := transformer.TransformDSLToProto("model\n  schema 1.1\ntype user\n")
			return m != nil, e
		})
		if o.steps < 50 {
			ctx.Note(fmt.Sprintf("step instrumentation inactive (steps=%d)", o.steps))
		} else {
			ctx.Flag("c08:steps-live")
		}
	}
	// the sections that carry vacuity guards and cost little come first, the large enumerations last: a wall-clock cap
	// then cuts the tail of an enumeration, never a whole section
	t0 := time.Now()
	for _, sec := range []struct {
		name string
		f    func(*core.Ctx)
	}{{"faults", c08Faults}, {"json-yaml", c08JSONYAML}, {"raw-bytes", c08RawBytes}, {"scaled", c08Scaled}, {"proto-shapes", c08ProtoShapes},
		{"nested", c08Nested}, {"pump", c08Pump}, {"merge-sets", c08MergeSets}, {"corpus", c08Corpus}} {
		sec.f(ctx)
		if os.Getenv("VERIF_DEBUG_SECTIONS") != "" {
			fmt.Fprintf(os.Stderr, "SECTION shard=%d %s done at %.0fs\n", ctx.Shard, sec.name, time.Since(t0).Seconds())
		}
	}
	// (a) all lexeme strings in every context
	k := 3
	base := 0
	for ci, cx := range gen.DSLContexts {
		for n := 0; n <= k; n++ {
			alpha := gen.DSLLexemes
			if n == 3 && !ctx.Thorough() {
				alpha = gen.DSLLexemesSmall
			}
			if ctx.Expired() {
				ctx.Cap(fmt.Sprintf("wall-clock cap in lexeme enumeration (context %d, length %d)", ci, n))
				break
			}
			capped := false
			gen.LexemeStrings(alpha, n, func(i int, s string) {
				if capped || !ctx.Mine(base+i) {
					return
				}
				if i%64 == 0 && ctx.Expired() {
					capped = true
					ctx.Cap(fmt.Sprintf("wall-clock cap inside the lexeme enumeration (context %d, length %d)", ci, n))
					return
				}
				c08Text(ctx, cx+s)
			})
			if capped {
				break
			}
			base += gen.Pow(len(alpha), n)
		}
	}
}

func init() {
	core.Register(&core.Check{
		ID: "C08",
		Rule: "(a) every string of <= 3 lexemes over a 38-lexeme DSL alphabet (length 3 over a 30-lexeme alphabet in quick) appended to 10 valid document prefixes, through TransformDSLToProto/JSON, TransformModularDSLToProto and as member of 1- and 2-file module sets; accepted texts continue through printer and both graph builders; every text is also merged alone, after and before a valid module, and the merger must agree with the single-file parser (a file the parser rejects makes the merge fail; on success nothing the file declares is missing); " +
			"every DSL text of the repository's shared test-data corpus with all its single mutations (each piece deleted, each of 30 lexemes inserted at each boundary; quick: for every 12th document); every string of <= 3/4 tokens over JSON and YAML token alphabets through TransformJSONStringToDSL / TransformModFile; every JSON value of two valid model documents replaced by 9 other JSON values. " +
			"(b) fault enumeration on protobufs: every single and every pair (quick: pairs on the small base model) of degradations (pointer nil / empty, slice nil / empty-but-present / drop / nil element, map nil / empty-but-present / nil value / renamed key, string empty, oneof nil / nil payload, enum 0 / out of range) of five base models (one with every kind of restriction as first and as only entry of its list; two of them not DSL-expressible: every operator kind in every structural position with the direct assignment elsewhere; direct assignment in subtract and non-first positions, nested unary operators) through printer (both options), plain graph (+Reversed, GetDOT, GetCycles, PathExists) and weighted builder. " +
			"(c) pumping: every fragment of <= 2 lexemes (thorough: + every 3rd 3-lexeme fragment) repeated n and 2n times (n = 32 / 64) in 10 insertion contexts; scaled model families through printer and both graph builders at n = 8, 16, 32, 64: four fixed shapes (computed chain, fan-in union, long restriction list, TTU cycle) and every cell family (n levels of two relations whose rewrites range over a 9 x 8 menu over the next level - computed, union / intersection / exclusion of both, direct assignment with usersets of the next level, TTU, the sibling - with the last level open or wrapped back to the first as one tuple cycle: 144 families incl. all diamond-shaped DAGs); the weighted builder additionally from every start node of its depth-first weight assignment (n <= 32 quick / 64 thorough), growth judged on the worst start node; nested pumping: open^n inner close^n for 12 open/close pairs (parentheses with and without operators on either side, doubled) x 6 inner rewrites x 4 prefixes at depth 16 and 32 (thorough 20 and 40); deterministic step counts from build-time instrumentation, growth exponent log2(S(2n)/S(n)) <= 2.5, horizon 5e7 steps. " +
			"states = outcome classes, non-trivial = distinct accepted texts and fault names",
		Assume: []string{
			"work is measured in instrumented steps (function entries and loop iterations of the repository, the antlr runtime, the generated parser and yaml.v3); built-ins, protobuf and regexp internals are not counted",
			"asymptotic growth is judged between n and 2n at n = 32 (quick) / 64 (thorough) only",
			"'a syntax error is always reported' is decided for texts with an unlexable character outside comments and (in C09) for constructed structural violations; byte strings beyond the lexeme alphabets are covered by 24 representative byte sequences (control characters, invalid UTF-8 of every kind, BOM, Unicode separators, astral characters) inserted singly at every offset and pairwise at every third offset of 13 documents, and pumped",
		},
		Technique: "bounded exhaustive enumeration of texts and of protobuf fault combinations with a panic guard and a deterministic step-count horizon",
		Run:       c08Run,
		Finish: func(r *core.Result) error {
			for _, f := range []string{"c08:steps-live", "c08:some-error", "c08:some-result", "c08:unlexable-rejected", "c08:fault-enumeration", "c08:pumped", "c08:json-replacement", "c08:module-file-sets", "c08:corpus-mutations", "c08:scaled-families", "c08:scaled-accepted", "c08:scaled-rejected", "c08:start-orders", "c08:nested-pumped", "c08:nested-accepted", "c08:raw-bytes", "c08:raw-unlexable-rejected", "c08:raw-accepted", "c08:raw-pumped", "c08:module-unreadable-file", "c08:module-merged", "c08:proto-shapes"} {
				if !r.Flags[f] {
					return fmt.Errorf("C08: guard %q never exercised", f)
				}
			}
			return nil
		},
		Replay: func(ctx *core.Ctx, c json.RawMessage) {
			var cs c08Case
			if err := json.Unmarshal(c, &cs); err != nil {
				panic(err)
			}
			switch {
			case cs.Nest != nil:
				c08NestOne(ctx, cs.Nest, cs.N)
			case cs.Frag != "":
				cx := pumpContexts[cs.Ctx]
				s0, _ := measure(cx.pre + cx.post)
				s1, _ := measure(cx.pre + strings.Repeat(cs.Frag, cs.N) + cx.post)
				s2, _ := measure(cx.pre + strings.Repeat(cs.Frag, 2*cs.N) + cx.post)
				if exp := math.Log2(float64(s2-s0) / float64(s1-s0)); exp > 2.5 {
					ctx.Violation("super-quadratic", fmt.Sprintf("fragment %q: exponent %.2f", cs.Frag, exp), cs, "<= 2.5", fmt.Sprintf("%.2f", exp))
				}
			case cs.Entry == "module-consistency":
				c08ModuleConsistency(ctx, cs.Text)
			case cs.Entry == "proto-shape":
				c08ProtoShapeOne(ctx, cs.Mut, cs.Ctx)
			case cs.Entry == "scaled":
				c08ScaledOne(ctx, cs.Mut)
			case cs.Entry == "TransformJSONStringToDSL":
				o := c08Call(func() (bool, error) { p, e := transformer.TransformJSONStringToDSL(cs.Text); return p != nil, e })
				c08Judge(ctx, cs, o)
			case cs.Entry == "TransformModFile":
				o := c08Call(func() (bool, error) { p, e := transformer.TransformModFile(cs.Text); return p != nil, e })
				c08Judge(ctx, cs, o)
			case cs.Mut != "" && cs.Text == "":
				ctx.Note("protobuf fault cases are replayed by name through the enumeration: " + cs.Mut)
				c08Faults(ctx)
			default:
				c08Text(ctx, cs.Text)
				c08RawText(ctx, cs.Text)
			}
		},
	})
}
