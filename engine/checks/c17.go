package checks

import (
	"encoding/json"
	"errors"
	"fmt"
	"sort"
	"strings"

	openfgav1 "github.com/openfga/api/proto/openfga/v1"
	gg "gonum.org/v1/gonum/graph"
	"google.golang.org/protobuf/proto"

	"github.com/openfga/language/pkg/go/graph"

	"verif/core"
	"verif/gen"
	"verif/ref"
	"verif/rt"
)

// C17 — plain model graph: faithful, reversible, stable DOT, sound path queries.

type c17Obs struct {
	g, rev, revrev   *graph.AuthorizationModelGraph
	err              error
	panic            any
	dot, rdot, rrdot string
	cycles           string
	paths            map[string]string // "a>b" -> "g=true rev=true" (only for the queried pairs)
}

// c17Body is the code under schedule control: every call whose internal
// iteration order the graph library leaves unspecified.
func c17Body(pm *openfgav1.AuthorizationModel, pairs [][2]string) *c17Obs {
	o := &c17Obs{paths: map[string]string{}}
	func() {
		defer func() {
			if p := recover(); p != nil {
				if d, ok := p.(rt.Divergence); ok {
					panic(d)
				}
				o.panic = p
			}
		}()
		o.g, o.err = graph.NewAuthorizationModelGraph(pm)
		if o.err != nil {
			return
		}
		o.dot = o.g.GetDOT()
		o.rev, o.err = o.g.Reversed()
		if o.err != nil {
			return
		}
		o.rdot = o.rev.GetDOT()
		o.revrev, o.err = o.rev.Reversed()
		if o.err != nil {
			return
		}
		o.rrdot = o.revrev.GetDOT()
		o.cycles = fmt.Sprintf("%+v", o.g.GetCycles())
		for _, p := range pairs {
			a, e1 := o.g.PathExists(p[0], p[1])
			b, e2 := o.rev.PathExists(p[1], p[0])
			o.paths[p[0]+">"+p[1]] = fmt.Sprintf("g=%v/%v rev=%v/%v", a, e1 != nil, b, e2 != nil)
		}
	}()
	return o
}

// plainEdges lists the lines into node x ordered by line id (= insertion order).
func plainEdgesInto(g *graph.AuthorizationModelGraph, x gg.Node) []*graph.AuthorizationModelEdge {
	var out []*graph.AuthorizationModelEdge
	to := g.To(x.ID())
	for to.Next() {
		ls := g.Lines(to.Node().ID(), x.ID())
		for ls.Next() {
			if e, ok := ls.Line().(*graph.AuthorizationModelEdge); ok {
				out = append(out, e)
			}
		}
	}
	sort.Slice(out, func(i, j int) bool { return out[i].ID() < out[j].ID() })
	return out
}

func plainEdgesOutOf(g *graph.AuthorizationModelGraph, x gg.Node) []*graph.AuthorizationModelEdge {
	var out []*graph.AuthorizationModelEdge
	from := g.From(x.ID())
	for from.Next() {
		ls := g.Lines(x.ID(), from.Node().ID())
		for ls.Next() {
			if e, ok := ls.Line().(*graph.AuthorizationModelEdge); ok {
				out = append(out, e)
			}
		}
	}
	sort.Slice(out, func(i, j int) bool { return out[i].ID() < out[j].ID() })
	return out
}

// c17Match compares the real plain graph with the reference (whose edges are
// directed relation -> operand; the plain graph draws them operand -> relation
// when reversed=false). Line ids are unique per node pair only, so operand
// order across different nodes is not recoverable: operands are compared as
// multisets of (edge type, tupleset label, operand signature), operators being
// identified by their recursive signature.
func c17Match(rg *ref.WG, g *graph.AuthorizationModelGraph, reversed bool) string {
	operands := func(x gg.Node) []*graph.AuthorizationModelEdge {
		if reversed {
			return plainEdgesOutOf(g, x)
		}
		return plainEdgesInto(g, x)
	}
	other := func(e *graph.AuthorizationModelEdge) gg.Node {
		if reversed {
			return e.To()
		}
		return e.From()
	}
	users := func(x gg.Node) int {
		if reversed {
			return len(plainEdgesInto(g, x))
		}
		return len(plainEdgesOutOf(g, x))
	}
	var realSig func(x gg.Node, depth int) string
	realSig = func(x gg.Node, depth int) string {
		n, ok := x.(*graph.AuthorizationModelNode)
		if !ok {
			return "<foreign node>"
		}
		if n.NodeType() != graph.OperatorNode {
			return fmt.Sprintf("%d:%s", n.NodeType(), n.Label())
		}
		if depth > 64 {
			return "<operator cycle>"
		}
		var ops []string
		for _, e := range operands(x) {
			ops = append(ops, fmt.Sprintf("%d|%s|%s", e.EdgeType(), e.TuplesetRelation(), realSig(other(e), depth+1)))
		}
		sort.Strings(ops)
		return fmt.Sprintf("%d:%s(%s)users=%d", n.NodeType(), n.Label(), strings.Join(ops, ", "), users(x))
	}
	var refSig func(r *ref.GNode) string
	refSig = func(r *ref.GNode) string {
		if r.Kind != ref.NOp {
			return fmt.Sprintf("%d:%s", r.Kind, r.Label)
		}
		var ops []string
		for _, e := range r.Edges {
			ops = append(ops, fmt.Sprintf("%d|%s|%s", e.Kind, e.Tupleset, refSig(e.To)))
		}
		sort.Strings(ops)
		return fmt.Sprintf("%d:%s(%s)users=1", r.Kind, r.Label, strings.Join(ops, ", "))
	}
	for _, r := range rg.Order {
		if r.Kind == ref.NOp {
			continue
		}
		x, err := g.GetNodeByLabel(r.Label)
		if err != nil {
			return fmt.Sprintf("label lookup of %q failed: %v", r.Label, err)
		}
		if x.Label() != r.Label || int(x.NodeType()) != r.Kind {
			return fmt.Sprintf("node %s: label %q type %d, expected %q type %d", r.ID, x.Label(), x.NodeType(), r.Label, r.Kind)
		}
		var want, got []string
		for _, e := range r.Edges {
			want = append(want, fmt.Sprintf("%d|%s|%s", e.Kind, e.Tupleset, refSig(e.To)))
		}
		for _, e := range operands(x) {
			got = append(got, fmt.Sprintf("%d|%s|%s", e.EdgeType(), e.TuplesetRelation(), realSig(other(e), 0)))
		}
		sort.Strings(want)
		sort.Strings(got)
		if strings.Join(want, "\n") != strings.Join(got, "\n") {
			return fmt.Sprintf("node %s: operand edges\n  %s\nexpected\n  %s", r.ID, strings.Join(got, "\n  "), strings.Join(want, "\n  "))
		}
	}
	if g.Nodes().Len() != len(rg.Order) {
		return fmt.Sprintf("graph has %d nodes, expected %d", g.Nodes().Len(), len(rg.Order))
	}
	nLines := 0
	it := g.Edges()
	for it.Next() {
		u, v := it.Edge().From(), it.Edge().To()
		nLines += g.Lines(u.ID(), v.ID()).Len()
	}
	want := 0
	for _, r := range rg.Order {
		want += len(r.Edges)
	}
	if nLines != want {
		return fmt.Sprintf("graph has %d lines, expected %d", nLines, want)
	}
	return ""
}

// refReach computes reachability on the reference graph in the plain graph's
// direction (operand -> relation).
func refReach(rg *ref.WG) map[string]map[string]bool {
	succ := map[string][]string{}
	for _, r := range rg.Order {
		for _, e := range r.Edges {
			succ[e.To.ID] = append(succ[e.To.ID], r.ID)
		}
	}
	out := map[string]map[string]bool{}
	for _, r := range rg.Order {
		seen := map[string]bool{r.ID: true}
		stack := []string{r.ID}
		for len(stack) > 0 {
			v := stack[len(stack)-1]
			stack = stack[:len(stack)-1]
			for _, w := range succ[v] {
				if !seen[w] {
					seen[w] = true
					stack = append(stack, w)
				}
			}
		}
		out[r.ID] = seen
	}
	return out
}

// refComputedCycle: two or more relations form a cycle of pure computed usersets;
// refAcyclic: the graph has no cycle at all.
func refCycles(rg *ref.WG) (pureComputedCycle bool, acyclic bool) {
	color := map[string]int{}
	var dfs func(n *ref.GNode, only func(*ref.GEdge) bool) bool
	dfs = func(n *ref.GNode, only func(*ref.GEdge) bool) bool {
		color[n.ID] = 1
		for _, e := range n.Edges {
			if !only(e) {
				continue
			}
			if e.To == n {
				if only(&ref.GEdge{Kind: -1}) { // self loops count only in the "any edge" pass
					return true
				}
				continue
			}
			if color[e.To.ID] == 1 {
				return true
			}
			if color[e.To.ID] == 0 && dfs(e.To, only) {
				return true
			}
		}
		color[n.ID] = 2
		return false
	}
	run := func(only func(*ref.GEdge) bool) bool {
		color = map[string]int{}
		for _, n := range rg.Order {
			if color[n.ID] == 0 && dfs(n, only) {
				return true
			}
		}
		return false
	}
	pureComputedCycle = run(func(e *ref.GEdge) bool { return e.Kind == ref.EComputed })
	acyclic = !run(func(e *ref.GEdge) bool { return true })
	return
}

type c17Case struct {
	Tag     string      `json:"tag,omitempty"`
	Model   *ref.Model  `json:"model"`
	Choices []int       `json:"choices,omitempty"`
	Pairs   [][2]string `json:"pairs,omitempty"`
	// Sparse: the model was built from its sparse-metadata form
	Sparse bool `json:"sparse_metadata,omitempty"`
}

func c17Class(site string) string {
	if site == "ext/graph/multi.DirectedGraph.Lines#0" || site == "ext/iterator.Lines" {
		return "lines"
	}
	return "any"
}

func c17Judge(ctx *core.Ctx, cs *c17Case, rg *ref.WG, reach map[string]map[string]bool, o *c17Obs, firstDot *string) bool {
	viol := func(kind, what, exp, obs string) bool {
		ctx.Violation(kind, fmt.Sprintf("%s [schedule %v]: %s", cs.Tag, cs.Choices, what), cs, exp, obs)
		return false
	}
	if o.panic != nil {
		return viol("graph-panics", fmt.Sprintf("panic: %v", o.panic), "", fmt.Sprint(o.panic))
	}
	if o.err != nil {
		return viol("graph-error", "building or reversing the graph failed: "+o.err.Error(), "", o.err.Error())
	}
	if d := c17Match(rg, o.g, false); d != "" {
		return viol("graph-not-faithful", d, "nodes and typed edges as the rewrite dictates, drawn from user types towards relations", d)
	}
	if o.g.GetDrawingDirection() != graph.DrawingDirectionListObjects || o.rev.GetDrawingDirection() != graph.DrawingDirectionCheck || o.revrev.GetDrawingDirection() != graph.DrawingDirectionListObjects {
		return viol("drawing-direction", "reversal does not flip the drawing direction", "", "")
	}
	if d := c17Match(rg, o.rev, true); d != "" {
		return viol("reversed-graph-differs", "Reversed() is not the same graph with every edge flipped: "+d, "", d)
	}
	if o.rrdot != o.dot {
		return viol("double-reversal-changes-dot", "Reversed().Reversed().GetDOT() differs from GetDOT()", o.dot, o.rrdot)
	}
	if *firstDot == "" {
		*firstDot = o.dot + "\x00" + o.rdot
	} else if *firstDot != o.dot+"\x00"+o.rdot {
		parts := strings.SplitN(*firstDot, "\x00", 2)
		if parts[0] != o.dot {
			return viol("dot-not-stable", "GetDOT() differs between builds of the same model", parts[0], o.dot)
		}
		return viol("reversed-dot-not-stable", "Reversed().GetDOT() differs between builds of the same model", parts[1], o.rdot)
	}
	for k, v := range o.paths {
		ab := strings.SplitN(k, ">", 2)
		want := reach[ab[0]][ab[1]]
		exp := fmt.Sprintf("g=%v/false rev=%v/false", want, want)
		if v != exp {
			return viol("path-query", fmt.Sprintf("PathExists(%s, %s): %s, reference reachability says %v", ab[0], ab[1], v, want), exp, v)
		}
	}
	pure, acyclic := refCycles(rg)
	if pure && !strings.Contains(o.cycles, "hasCyclesAtCompileTime:true") {
		return viol("compile-time-cycle-missed", "two or more relations form a cycle of pure computed usersets, GetCycles() = "+o.cycles, "hasCyclesAtCompileTime:true", o.cycles)
	}
	if !pure && strings.Contains(o.cycles, "hasCyclesAtCompileTime:true") {
		return viol("compile-time-cycle-invented", "no two relations form a cycle of pure computed usersets (every cycle of the model passes a direct, tuple-to-userset or operator edge), GetCycles() = "+o.cycles, "hasCyclesAtCompileTime:false", o.cycles)
	}
	if !pure && !acyclic {
		ctx.Flag("c17:mixed-cycle")
	}
	if acyclic && o.cycles != "{hasCyclesAtCompileTime:false canHaveCyclesAtRuntime:false}" {
		return viol("cycle-reported-on-acyclic-model", "the model is acyclic, GetCycles() = "+o.cycles, "both flags false", o.cycles)
	}
	if pure {
		ctx.Flag("c17:pure-computed-cycle")
	}
	if acyclic {
		ctx.Flag("c17:acyclic")
	}
	return true
}

func c17Labels(rg *ref.WG) []string {
	var ls []string
	for _, r := range rg.Order {
		if r.Kind != ref.NOp {
			ls = append(ls, r.ID)
		}
	}
	return ls
}

func c17One(ctx *core.Ctx, i int, tm gen.Tagged) {
	rg := ref.BuildLenient(tm.M)
	pm := ref.ToProto(tm.M)
	reach := refReach(rg)
	labels := c17Labels(rg)
	var allPairs [][2]string
	for _, a := range labels {
		for _, b := range labels {
			allPairs = append(allPairs, [2]string{a, b})
		}
	}
	hasParallel := false
	for _, r := range rg.Order {
		seen := map[string]int{}
		for _, e := range r.Edges {
			seen[e.To.ID]++
			if seen[e.To.ID] > 1 {
				hasParallel = true
			}
		}
	}
	if hasParallel {
		ctx.Flag("c17:parallel-lines")
	}
	firstDot := ""
	// (1) construction, DOT, reversal, cycles under schedules (no path queries: they would dominate the choice points)
	var o *c17Obs
	budgets := []map[string]int{{"any": 1, "lines": 0}, {"any": 0, "lines": -1}}
	pairBudget := map[string]int{"any": 1, "lines": 1}
	if len(rg.Order) > 30 {
		// a large graph (the size sweeps): the default schedule only - its subject is size, not order
		budgets = []map[string]int{{"any": 0, "lines": 0}}
		pairBudget = map[string]int{"any": 0, "lines": 0}
		ctx.Flag("c17:large-graph")
	}
	for _, b := range budgets {
		st := rt.Explore(rt.Config{Class: c17Class, Budget: b, MaxExec: 12000, Stop: ctx.Expired},
			func() { o = c17Body(proto.Clone(pm).(*openfgav1.AuthorizationModel), nil) },
			func(pts []rt.Point) bool {
				ctx.Trans(1)
				if len(pts) > 0 {
					ctx.Flag("map-sites-reached")
				}
				cs := &c17Case{Tag: tm.Tag, Model: tm.M, Choices: rt.Choices(pts)}
				return c17Judge(ctx, cs, rg, reach, o, &firstDot)
			})
		ctx.Count("executions_construction_dot_reversal", st.Executions)
		ctx.Count("choice_points_construction", st.Points)
		if !st.Complete {
			if ctx.Counter("violations_total") > 0 {
				return
			}
			ctx.Cap("a schedule exploration hit its execution cap (12000) or the wall-clock cap")
		}
	}
	// (2) all ordered label pairs on the default schedule; a rotating slice of pairs under schedules
	ctx.Trans(1)
	rt.Run(nil, nil, func() { o = c17Body(pm, allPairs) })
	cs := &c17Case{Tag: tm.Tag, Model: tm.M, Pairs: allPairs}
	if !c17Judge(ctx, cs, rg, reach, o, &firstDot) {
		return
	}
	// the same model with sparse metadata (no entry for relations without direct assignment): the same graph
	if sp, changed := sparseMetadata(pm); changed {
		ctx.Trans(1)
		var so *c17Obs
		rt.Run(nil, nil, func() { so = c17Body(sp, allPairs) })
		scs := &c17Case{Tag: tm.Tag + " (metadata only for relations with a direct assignment)", Model: tm.M, Pairs: allPairs, Sparse: true}
		if !c17Judge(ctx, scs, rg, reach, so, &firstDot) {
			return
		}
		ctx.Flag("c17:sparse-metadata")
	}
	// label lookup: on the graph, its reversal and the double reversal ("reversing flips edges and direction and nothing else")
	for gi, gr := range []*graph.AuthorizationModelGraph{o.g, o.rev, o.revrev} {
		which := []string{"graph", "reversed graph", "twice reversed graph"}[gi]
		for _, l := range labels {
			n, err := gr.GetNodeByLabel(l)
			if err != nil {
				ctx.Violation("label-lookup", fmt.Sprintf("%s: GetNodeByLabel(%q) fails on the %s: %v", tm.Tag, l, which, err), cs, "found", err.Error())
				return
			}
			if n.Label() != l {
				ctx.Violation("label-lookup", fmt.Sprintf("%s: GetNodeByLabel(%q) on the %s returns node %q", tm.Tag, l, which, n.Label()), cs, l, n.Label())
				return
			}
		}
		for _, l := range []string{"", "nope", "doc#zz", "user:", "union", "intersection", "exclusion", "doc#", "#a", "user:*:*"} {
			if _, ok := rg.Nodes[l]; ok {
				continue
			}
			if _, err := gr.GetNodeByLabel(l); err == nil || !errors.Is(err, graph.ErrQueryingGraph) {
				ctx.Violation("label-lookup", fmt.Sprintf("%s: GetNodeByLabel(%q) on the %s = %v, expected ErrQueryingGraph", tm.Tag, l, which, err), cs, "ErrQueryingGraph", fmt.Sprint(err))
				return
			}
			if _, err := gr.PathExists(l, labels[0]); err == nil {
				ctx.Violation("path-query", fmt.Sprintf("%s: PathExists(%q, ..) on an unknown label returns no error on the %s", tm.Tag, l, which), cs, "ErrQueryingGraph", "nil")
				return
			}
			if _, err := gr.PathExists(labels[0], l); err == nil {
				ctx.Violation("path-query", fmt.Sprintf("%s: PathExists(.., %q) on an unknown label returns no error on the %s", tm.Tag, l, which), cs, "ErrQueryingGraph", "nil")
				return
			}
		}
	}
	if len(allPairs) > 0 && (ctx.Thorough() || i%4 == 0) {
		k := 3
		if ctx.Thorough() {
			k = 6
		}
		var pairs [][2]string
		for j := 0; j < k; j++ {
			pairs = append(pairs, allPairs[(i*7+j*13)%len(allPairs)])
		}
		st := rt.Explore(rt.Config{Class: c17Class, Budget: pairBudget, MaxExec: 12000, Stop: ctx.Expired},
			func() { o = c17Body(proto.Clone(pm).(*openfgav1.AuthorizationModel), pairs) },
			func(pts []rt.Point) bool {
				ctx.Trans(1)
				cs := &c17Case{Tag: tm.Tag, Model: tm.M, Choices: rt.Choices(pts), Pairs: pairs}
				return c17Judge(ctx, cs, rg, reach, o, &firstDot)
			})
		ctx.Count("executions_path_queries_under_schedule", st.Executions)
		if !st.Complete && ctx.Counter("violations_total") == 0 {
			ctx.Cap("a schedule exploration hit its execution cap (12000) or the wall-clock cap")
		}
	}
	ctx.State(firstDot)
	ctx.Nontrivial(tm.Tag)
	if ctx.WantSample() && hasParallel {
		ctx.Sample(map[string]any{"model": tm.Tag, "dot": strings.SplitN(firstDot, "\x00", 2)[0]})
	}
}

// c17MixedCycles: cycles of computed usersets closed by ONE edge of another kind (a direct userset restriction, a tuple to
// userset, an operator), with that edge at every position of the cycle (which edge a cycle enumeration meets last depends on
// the order of the relation names), alone and next to a pure computed cycle.
func c17MixedCycles() []gen.Tagged {
	var out []gen.Tagged
	u := ref.Restriction{Type: "user"}
	closers := []struct {
		tag string
		mk  func(target string) ref.Relation
	}{
		{"direct userset", func(t string) ref.Relation {
			return ref.Relation{Rw: ref.T(), Restr: []ref.Restriction{u, {Type: "doc", Relation: t}}}
		}},
		{"tuple to userset", func(t string) ref.Relation { return ref.Relation{Rw: ref.TT(t, "p")} }},
		{"union", func(t string) ref.Relation {
			return ref.Relation{Rw: ref.U(ref.T(), ref.C(t)), Restr: []ref.Restriction{u}}
		}},
	}
	for _, n := range []int{2, 3, 4} {
		names := []string{"a", "b", "c", "d"}[:n]
		for pos := 0; pos < n; pos++ {
			for _, cl := range closers {
				for _, withPure := range []bool{false, true} {
					doc := ref.TypeDef{Name: "doc"}
					for i, nm := range names {
						next := names[(i+1)%n]
						r := ref.Relation{Rw: ref.C(next)}
						if i == pos {
							r = cl.mk(next)
						}
						r.Name = nm
						doc.Rels = append(doc.Rels, r)
					}
					doc.Rels = append(doc.Rels, ref.Relation{Name: "p", Rw: ref.T(), Restr: []ref.Restriction{{Type: "doc"}}})
					if withPure {
						doc.Rels = append(doc.Rels, ref.Relation{Name: "x", Rw: ref.C("y")}, ref.Relation{Name: "y", Rw: ref.C("x")})
					}
					out = append(out, gen.Tagged{Tag: fmt.Sprintf("mixed-cycle: %d relations, closed by a %s at position %d, pure cycle beside it: %v", n, cl.tag, pos, withPure),
						M: &ref.Model{Schema: "1.1", Types: []ref.TypeDef{{Name: "user"}, doc}}})
				}
			}
		}
	}
	return out
}

func c17Models(thorough bool) []gen.Tagged {
	out := c10Extra()
	out = append(out, gen.TTUDefectModels()...)
	// one operator reaching a relation by a rewrite / TTU line and by a direct line, in both operand orders (the second one only
	// comes through JSON or protobuf); two TTUs under one operator
	out = append(out, gen.SameTargetModels()...)
	for i, tm := range gen.TTUPairModels() {
		if thorough || i%6 == 0 {
			out = append(out, tm)
		}
	}
	out = append(out, c17MixedCycles()...)
	sp := gen.NewGraphSpace(false)
	step := 81
	if thorough {
		step = 9
	}
	for i := 0; i < sp.Size(); i += step {
		out = append(out, sp.At(i))
	}
	three := gen.ThreeRelModels(false)
	for i := 0; i < len(three); i += step {
		out = append(out, three[i])
	}
	// condition lists of one to four entries, tupleset lists with repeated parents, several public types
	mstep := 16
	if thorough {
		mstep = 2
	}
	out = append(out, gen.SweepModelsGraph([]int{13})...)
	if thorough {
		out = append(out, gen.SweepModelsGraph([]int{33})...)
	}
	for _, fam := range [][]gen.Tagged{c10ManyConds(), gen.TuplesetListModels(), c11Many()} {
		for i := 0; i < len(fam); i += mstep {
			out = append(out, fam[i])
		}
	}
	return out
}

func c17Run(ctx *core.Ctx) {
	for i, tm := range c17Models(ctx.Thorough()) {
		if !ctx.Mine(i) {
			continue
		}
		if ctx.Expired() {
			ctx.Cap("wall-clock cap: not all models visited")
			return
		}
		ctx.Eval(1)
		c17One(ctx, i, tm)
	}
}

func init() {
	core.Register(&core.Check{
		ID: "C17",
		Rule: "models: the structure alphabet of C10 (parallel lines, repeated operands, conditioned duplicates, nesting), the TTU-defect family, every 81st (quick) / every 9th (thorough) model of the two-relation graph alphabet and of the three-relation cyclic family " +
			"x map-iteration schedules of the repository's two sites and of gonum's iterators, multigraph, topo and set packages (every single deviation; the maps holding the parallel lines between two nodes fully permuted) " +
			"x all ordered pairs of node labels on the default schedule plus a rotating 3 (quick, every 4th model) / 6 (thorough) pairs under schedules. Oracle: ordered structural comparison with the reference graph in both directions, drawing direction, " +
			"rev(rev(g)).GetDOT() == g.GetDOT(), one DOT text per model across all executions, PathExists(a,b) on g <=> PathExists(b,a) on rev(g) <=> reference reachability, label lookup, cycle flags. " +
			"states = distinct DOT texts, non-trivial = distinct models",
		Assume: []string{
			"gonum's reflect-based map iterators are replaced (build tag safe) by versions drawing their order from the choice machine; its native range-over-map statements are rewritten like the repository's",
			"the two CycleInformation flags are read with %+v formatting",
			"conditions of plain-graph edges are not observable through the API and not judged",
		},
		Technique: "exhaustive exploration of map-iteration schedules inside the repository and the graph library (deviation-bounded DFS) against a reference graph and reachability",
		Run:       c17Run,
		Finish: func(r *core.Result) error {
			for _, f := range []string{"map-sites-reached", "c17:parallel-lines", "c17:pure-computed-cycle", "c17:acyclic", "c17:mixed-cycle"} {
				if !r.Flags[f] {
					return fmt.Errorf("C17: guard %q never exercised", f)
				}
			}
			return nil
		},
		Replay: func(ctx *core.Ctx, c json.RawMessage) {
			var cs c17Case
			if err := json.Unmarshal(c, &cs); err != nil {
				panic(err)
			}
			rg := ref.BuildLenient(cs.Model)
			pm := ref.ToProto(cs.Model)
			var o0, o *c17Obs
			rt.Run(nil, nil, func() { o0 = c17Body(pm, cs.Pairs) })
			first := ""
			if !c17Judge(ctx, &c17Case{Tag: cs.Tag, Model: cs.Model, Pairs: cs.Pairs}, rg, refReach(rg), o0, &first) {
				return
			}
			if cs.Sparse {
				pm, _ = sparseMetadata(pm)
			}
			rt.Run(cs.Choices, nil, func() { o = c17Body(pm, cs.Pairs) })
			c17Judge(ctx, &cs, rg, refReach(rg), o, &first)
		},
	})
}
