package checks

import (
	"encoding/json"
	"fmt"
	"os"
	"path/filepath"
	"regexp"
	"strings"
	"unicode/utf8"

	"github.com/openfga/language/pkg/go/validation"

	"verif/core"
)

// ---------------------------------------------------------------------------
// C18 — tuple-field validators accept only unambiguously decomposable strings
//
// Reference (written from the property statement and the documented limits, no
// regular expressions): see vType .. vUser below. The implementation is
// compared with it on *every* string of a bounded length over an alphabet
// that holds one representative per character class the rules can
// distinguish, and the literal decomposition facts of the statement are
// checked on the implementation's own answers as well.

func isWS(r rune) bool { return r == ' ' || r == '\t' || r == '\n' || r == '\f' || r == '\r' }

func vNameLike(s string, max int) bool {
	n := 0
	for _, r := range s {
		n++
		if isWS(r) || r == ':' || r == '#' || r == '@' || r == '*' {
			return false
		}
	}
	return n >= 1 && n <= max
}
func vType(s string) bool     { return vNameLike(s, 254) }
func vRelation(s string) bool { return vNameLike(s, 50) }
func vCondition(s string) bool {
	n := 0
	for _, r := range s {
		n++
		if isWS(r) || r == '*' {
			return false
		}
	}
	return n >= 1 && n <= 50
}
func idBody(r rune) bool {
	return (r >= 'a' && r <= 'z') || (r >= 'A' && r <= 'Z') || (r >= '0' && r <= '9') || strings.ContainsRune("_|*@.+", r)
}
func vID(s string) bool {
	first := true
	for _, r := range s {
		if first {
			first = false
			if isWS(r) || r == '#' || r == ':' || r == '*' {
				return false
			}
			continue
		}
		if !idBody(r) {
			return false
		}
	}
	return !first
}
func vObjLen(s string) bool {
	n := 0
	for _, r := range s {
		n++
		if isWS(r) {
			return false
		}
	}
	return n >= 2 && n <= 256
}
func vObject(s string) bool {
	i := strings.IndexByte(s, ':')
	if i < 0 || strings.Count(s, ":") != 1 {
		return false
	}
	return vType(s[:i]) && vID(s[i+1:]) && vObjLen(s)
}
func vUserSet(s string) bool {
	i := strings.IndexByte(s, ':')
	if i < 0 || strings.Count(s, ":") != 1 {
		return false
	}
	j := strings.IndexByte(s, '#')
	if j < i || strings.Count(s, "#") != 1 {
		return false
	}
	return vType(s[:i]) && vID(s[i+1:j]) && vRelation(s[j+1:])
}
func vWildcard(s string) bool {
	return strings.HasSuffix(s, ":*") && vType(s[:len(s)-2])
}
func vUser(s string) bool { return vUserSet(s) || vObject(s) || vWildcard(s) }

type validatorFn struct {
	name string
	impl func(string) bool
	ref  func(string) bool
}

var c18Validators = []validatorFn{
	{"ValidateObject", validation.ValidateObject, vObject},
	{"ValidateUserSet", validation.ValidateUserSet, vUserSet},
	{"ValidateUserObject", validation.ValidateUserObject, vObject},
	{"ValidateUserWildcard", validation.ValidateUserWildcard, vWildcard},
	{"ValidateUser", validation.ValidateUser, vUser},
	{"ValidateType", validation.ValidateType, vType},
	{"ValidateRelation", validation.ValidateRelation, vRelation},
	{"ValidateObjectID", validation.ValidateObjectID, vID},
	{"ValidateRelationshipCondition", validation.ValidateRelationshipCondition, vCondition},
}

// c18Facts checks the literal statements of the property on the
// implementation's own answers (independent of the reference above).
func c18Facts(s string, got map[string]bool) (string, bool) {
	hasWS := strings.ContainsAny(s, " \t\n\f\r")
	if got["ValidateObject"] {
		if strings.Count(s, ":") != 1 {
			return "accepted object does not have exactly one ':'", false
		}
		i := strings.IndexByte(s, ':')
		if !validation.ValidateType(s[:i]) || !validation.ValidateObjectID(s[i+1:]) {
			return "accepted object does not split into accepted type and accepted id", false
		}
	}
	if got["ValidateUserSet"] {
		if strings.Count(s, ":") != 1 || strings.Count(s, "#") != 1 {
			return "accepted userset does not have exactly one ':' and one '#'", false
		}
		i := strings.IndexByte(s, ':')
		j := strings.IndexByte(s, '#')
		if j < i || !validation.ValidateType(s[:i]) || !validation.ValidateObjectID(s[i+1:j]) || !validation.ValidateRelation(s[j+1:]) {
			return "accepted userset does not split into accepted type, id and relation", false
		}
	}
	if got["ValidateUser"] {
		n := 0
		for _, b := range []bool{got["ValidateUserSet"], got["ValidateUserObject"], got["ValidateUserWildcard"]} {
			if b {
				n++
			}
		}
		if n != 1 {
			return fmt.Sprintf("accepted user is %d of userset/object/wildcard, want exactly one", n), false
		}
	}
	if got["ValidateType"] || got["ValidateRelation"] {
		if hasWS || strings.ContainsAny(s, ":#@*") {
			return "accepted type/relation contains whitespace or one of : # @ *", false
		}
	}
	if got["ValidateObjectID"] && hasWS {
		return "accepted object id contains whitespace", false
	}
	return "", true
}

// --- character classes computed from the rule strings ----------------------

type bracketClass struct {
	neg    bool
	ranges [][2]rune
	ws     bool
}

func (b bracketClass) has(r rune) bool {
	in := b.ws && isWS(r)
	for _, rg := range b.ranges {
		if r >= rg[0] && r <= rg[1] {
			in = true
		}
	}
	return in != b.neg
}

// parseBrackets extracts every [...] class from a rule string. It understands
// what the five rules use: negation, ranges, \s and escaped literals.
func parseBrackets(rule string) ([]bracketClass, error) {
	var out []bracketClass
	rs := []rune(rule)
	for i := 0; i < len(rs); i++ {
		if rs[i] == '\\' {
			i++
			continue
		}
		if rs[i] != '[' {
			continue
		}
		i++
		bc := bracketClass{}
		if i < len(rs) && rs[i] == '^' {
			bc.neg = true
			i++
		}
		for ; i < len(rs) && rs[i] != ']'; i++ {
			c := rs[i]
			if c == '\\' {
				i++
				if i >= len(rs) {
					return nil, fmt.Errorf("dangling escape in %q", rule)
				}
				switch rs[i] {
				case 's':
					bc.ws = true
					continue
				case 'd', 'w', 'S', 'D', 'W', 'b', 'p', 'P':
					return nil, fmt.Errorf("unsupported escape \\%c in %q", rs[i], rule)
				}
				c = rs[i]
			}
			if i+2 < len(rs) && rs[i+1] == '-' && rs[i+2] != ']' {
				bc.ranges = append(bc.ranges, [2]rune{c, rs[i+2]})
				i += 2
				continue
			}
			bc.ranges = append(bc.ranges, [2]rune{c, c})
		}
		if i >= len(rs) {
			return nil, fmt.Errorf("unterminated class in %q", rule)
		}
		out = append(out, bc)
	}
	return out, nil
}

// classRepresentatives returns one representative per membership signature
// over all bracket classes of the current Go rule strings, scanning the code
// points below 0x3100 plus a few further ones.
func classRepresentatives() ([]rune, int, error) {
	var all []bracketClass
	for _, r := range []validation.Rule{validation.RuleType, validation.RuleRelation, validation.RuleCondition, validation.RuleID, validation.RuleObject} {
		bs, err := parseBrackets(string(r))
		if err != nil {
			return nil, 0, err
		}
		all = append(all, bs...)
	}
	seen := map[string]rune{}
	var reps []rune
	cands := []rune{}
	for r := rune(0); r < 0x3100; r++ {
		cands = append(cands, r)
	}
	cands = append(cands, 0xFEFF, 0xFFFD, 0x1F600)
	for _, r := range cands {
		if r >= 0xD800 && r <= 0xDFFF {
			continue
		}
		sig := make([]byte, len(all)+1)
		for i, b := range all {
			if b.has(r) {
				sig[i] = '1'
			} else {
				sig[i] = '0'
			}
		}
		// ':' and '#' are structural separators in the composed patterns
		sig[len(all)] = '-'
		if r == ':' || r == '#' {
			sig[len(all)] = byte(r)
		}
		if _, ok := seen[string(sig)]; !ok {
			seen[string(sig)] = r
			reps = append(reps, r)
		}
	}
	return reps, len(seen), nil
}

var c18Fixed = []rune{'a', ':', '#', '@', '*', ' ', '-'}
var c18Second = []rune{'Z', '7', '_', '|', '.', '+', 'é', '/', '\t', '\n', '\v', 0xA0}

func c18Alphabet(extra bool) (alpha []rune, classes int, note string) {
	alpha = append(alpha, c18Fixed...)
	reps, n, err := classRepresentatives()
	if err != nil {
		note = "class discovery from rule strings unavailable: " + err.Error()
	}
	classes = n
	// one representative per discovered class that the fixed alphabet does
	// not already cover: decide by signature equality through a re-scan
	covered := map[rune]bool{}
	for _, r := range alpha {
		covered[r] = true
	}
	sigOf := func(r rune) string {
		var sb strings.Builder
		for _, rule := range []validation.Rule{validation.RuleType, validation.RuleRelation, validation.RuleCondition, validation.RuleID, validation.RuleObject} {
			bs, _ := parseBrackets(string(rule))
			for _, b := range bs {
				if b.has(r) {
					sb.WriteByte('1')
				} else {
					sb.WriteByte('0')
				}
			}
		}
		if r == ':' || r == '#' {
			sb.WriteRune(r)
		}
		return sb.String()
	}
	have := map[string]bool{}
	for _, r := range alpha {
		have[sigOf(r)] = true
	}
	for _, r := range reps {
		if !have[sigOf(r)] {
			have[sigOf(r)] = true
			alpha = append(alpha, r)
		}
	}
	if extra {
		for _, r := range c18Second {
			if !covered[r] {
				alpha = append(alpha, r)
			}
		}
	}
	return
}

type c18Case struct {
	S string `json:"s"`
}

func c18CheckString(ctx *core.Ctx, s string) {
	ctx.Eval(1)
	anyAccept := false
	var sig [10]byte
	res := map[string]bool{}
	for i, v := range c18Validators {
		got := v.impl(s)
		res[v.name] = got
		ctx.Trans(1)
		want := v.ref(s)
		sig[i] = '0'
		if got {
			sig[i] = '1'
			anyAccept = true
		}
		if got != want {
			ctx.Violation("validator-disagrees-with-reference",
				fmt.Sprintf("%s(%q) = %v, reference (split at the single ':'/'#', class and length checks) says %v", v.name, s, got, want),
				c18Case{s}, fmt.Sprint(want), fmt.Sprint(got))
		}
	}
	if msg, ok := c18Facts(s, res); !ok {
		ctx.Violation("decomposition-fact", fmt.Sprintf("%q: %s", s, msg), c18Case{s}, "", "")
	}
	ctx.State(string(sig[:9]))
	if anyAccept {
		ctx.Nontrivial(s)
		ctx.Flag("some-accepted")
	} else {
		ctx.Flag("some-rejected")
	}
	if ctx.WantSample() && anyAccept && utf8.RuneCountInString(s) >= 3 {
		ctx.Sample(map[string]any{"string": s, "accepted_by": acceptedBy(res)})
	}
}

func acceptedBy(res map[string]bool) []string {
	var out []string
	for _, v := range c18Validators {
		if res[v.name] {
			out = append(out, v.name)
		}
	}
	return out
}

// enumStrings calls f for every string of exactly length n over alpha whose
// index i (lexicographic) satisfies mine(i).
func enumStrings(alpha []rune, n int, f func(idx int, s string)) {
	idx := make([]int, n)
	buf := make([]rune, n)
	count := 0
	for {
		for i := 0; i < n; i++ {
			buf[i] = alpha[idx[i]]
		}
		f(count, string(buf))
		count++
		k := n - 1
		for k >= 0 {
			idx[k]++
			if idx[k] < len(alpha) {
				break
			}
			idx[k] = 0
			k--
		}
		if k < 0 {
			return
		}
	}
}

func c18Static(ctx *core.Ctx) {
	if ctx.Shard != 0 {
		return
	}
	repo := RepoRoot()
	goRules := map[string]string{
		"type": string(validation.RuleType), "relation": string(validation.RuleRelation), "condition": string(validation.RuleCondition),
		"id": string(validation.RuleID), "object": string(validation.RuleObject),
	}
	unescape := func(lit string) string {
		// both TS and Java use double-quoted literals with backslash escapes
		var sb strings.Builder
		for i := 0; i < len(lit); i++ {
			if lit[i] == '\\' && i+1 < len(lit) {
				i++
			}
			sb.WriteByte(lit[i])
		}
		return sb.String()
	}
	ts, err1 := os.ReadFile(filepath.Join(repo, "pkg/js/validator/validate-rules.ts"))
	jv, err2 := os.ReadFile(filepath.Join(repo, "pkg/java/src/main/java/dev/openfga/language/validation/Validator.java"))
	if err1 != nil || err2 != nil {
		ctx.Violation("static-rule-strings", fmt.Sprintf("cannot read JS/Java validator sources: %v %v", err1, err2), c18Case{"<static>"}, "", "")
		return
	}
	tsRe := regexp.MustCompile(`(?m)^\s*(type|relation|condition|id|object):\s*"((?:[^"\\]|\\.)*)"`)
	jvRe := regexp.MustCompile(`(?m)String\s+(TYPE|RELATION|CONDITION|ID|OBJECT)\s*=\s*"((?:[^"\\]|\\.)*)"`)
	tsRules := map[string]string{}
	for _, mm := range tsRe.FindAllStringSubmatch(string(ts), -1) {
		tsRules[mm[1]] = unescape(mm[2])
	}
	jvRules := map[string]string{}
	for _, mm := range jvRe.FindAllStringSubmatch(string(jv), -1) {
		jvRules[strings.ToLower(mm[1])] = unescape(mm[2])
	}
	for k, g := range goRules {
		ctx.Eval(1)
		ctx.Trans(1)
		if tsRules[k] != g || jvRules[k] != g {
			ctx.Violation("static-rule-strings",
				fmt.Sprintf("rule %q differs between packages: go=%q js=%q java=%q", k, g, tsRules[k], jvRules[k]),
				c18Case{"<static>"}, g, tsRules[k]+" | "+jvRules[k])
		}
	}
	ctx.Flag("static-compared")
}

func c18Run(ctx *core.Ctx) {
	c18Static(ctx)
	alpha, classes, note := c18Alphabet(false)
	if note != "" {
		ctx.Note(note)
	}
	ctx.Count("character_classes_discovered", 0)
	if ctx.Shard == 0 {
		ctx.Count("character_classes_discovered", classes)
		ctx.Count("alphabet_size", len(alpha))
		ctx.Note(fmt.Sprintf("alphabet (one representative per class): %q", string(alpha)))
		ctx.Note("whitespace is what the rules' own \\s denotes in Go (space, \\t \\n \\f \\r); \\v, U+0085, U+00A0 are ordinary characters for RE2 although JS/Java \\s treats some of them as whitespace")
	}
	maxLen := 5
	if ctx.Thorough() {
		maxLen = 7
	}
	base := 0
	for n := 0; n <= maxLen; n++ {
		if ctx.Expired() {
			ctx.Cap(fmt.Sprintf("wall-clock cap before length %d of the exhaustive class-alphabet enumeration", n))
			break
		}
		if n == 0 {
			if ctx.Mine(0) {
				c18CheckString(ctx, "")
			}
			base++
			continue
		}
		enumStrings(alpha, n, func(i int, s string) {
			if ctx.Mine(base + i) {
				c18CheckString(ctx, s)
			}
		})
		p := 1
		for i := 0; i < n; i++ {
			p *= len(alpha)
		}
		base += p
	}
	// the partition itself: all strings <= L over fixed + second representatives
	alpha2, _, _ := c18Alphabet(true)
	l2 := 3
	if ctx.Thorough() {
		l2 = 4
	}
	for n := 1; n <= l2; n++ {
		enumStrings(alpha2, n, func(i int, s string) {
			if ctx.Mine(base + i) {
				c18CheckString(ctx, s)
			}
		})
		base += 1 << 20
	}
	// boundary-length families
	fixLen := 1
	if ctx.Thorough() {
		fixLen = 2
	}
	var affixes []string
	for n := 0; n <= fixLen; n++ {
		if n == 0 {
			affixes = append(affixes, "")
			continue
		}
		enumStrings(alpha, n, func(_ int, s string) { affixes = append(affixes, s) })
	}
	lens := []int{}
	for _, c := range []int{1, 2, 50, 254, 256} {
		for d := -2; d <= 2; d++ {
			if c+d >= 0 {
				lens = append(lens, c+d)
			}
		}
	}
	seenLen := map[int]bool{}
	k := 0
	for _, n := range lens {
		if seenLen[n] {
			continue
		}
		seenLen[n] = true
		for _, midRune := range []string{"a", "\u0434"} { // one-byte and two-byte representative of the name-like class: limits count characters
			mid := strings.Repeat(midRune, n)
			if midRune != "a" && n < 48 {
				continue // the multi-byte variant matters around the limits only
			}
			for _, p := range affixes {
				for _, s := range affixes {
					k++
					if !ctx.Mine(k) {
						continue
					}
					if ctx.Expired() {
						ctx.Cap("wall-clock cap inside boundary-length families")
						return
					}
					x := p + mid + s
					for _, emb := range []string{x, x + ":x", x + ":x#r", x + ":*", "t:" + x, "t:" + x + "#r", "t:x#" + x} {
						c18CheckString(ctx, emb)
					}
					ctx.Flag("boundary-families")
				}
			}
		}
	}
	// total object length 2..256 with the split at different places
	for _, tl := range []int{1, 100, 253, 254} {
		for d := -3; d <= 3; d++ {
			il := 256 - 1 - tl + d
			if il < 0 {
				continue
			}
			k++
			if !ctx.Mine(k) {
				continue
			}
			s := strings.Repeat("t", tl) + ":" + strings.Repeat("i", il)
			c18CheckString(ctx, s)
			c18CheckString(ctx, s+"#r")
			// the same lengths in characters with a two-byte type name and first id character
			if il > 0 {
				m := strings.Repeat("\u0434", tl) + ":" + "\u0434" + strings.Repeat("i", il-1)
				c18CheckString(ctx, m)
				c18CheckString(ctx, m+"#r")
			}
		}
	}
}

func init() {
	core.Register(&core.Check{
		ID: "C18",
		Rule: "every string of length <= 5 (quick) / <= 7 (thorough) over one representative per character class the five rule strings distinguish " +
			"(classes computed from the rule strings; fixed representatives a : # @ * space -), every string of length <= 3/4 over 12 second representatives, " +
			"boundary families p.c^n.s for n within 2 of 1,2,50,254,256 in every field position with c a one-byte and a two-byte character; each string goes through all nine validators. " +
			"states = distinct accept/reject signatures over the nine validators; non-trivial = distinct strings accepted by at least one validator",
		Assume: []string{
			"whitespace means what \\s denotes in Go's RE2 (space, \\t, \\n, \\f, \\r)",
			"strings longer than the enumerated bound are represented by the boundary families only",
			"JS and Java behaviour is bound to Go's only through equality of the five rule strings (their regex engines are not run)",
		},
		Technique: "bounded exhaustive enumeration of input strings against a regex-free reference model",
		Run:       c18Run,
		Finish: func(r *core.Result) error {
			for _, f := range []string{"some-accepted", "some-rejected", "static-compared", "boundary-families"} {
				if !r.Flags[f] {
					return fmt.Errorf("C18: guard %q never exercised", f)
				}
			}
			if r.States < 5 {
				return fmt.Errorf("C18: only %d distinct validator signatures", r.States)
			}
			return nil
		},
		Replay: func(ctx *core.Ctx, c json.RawMessage) {
			var cs c18Case
			json.Unmarshal(c, &cs)
			if cs.S == "<static>" {
				c18Static(ctx)
				return
			}
			c18CheckString(ctx, cs.S)
		},
	})
}
