package checks

import (
	"fmt"
	"os"
	"path/filepath"
	"strings"

	"github.com/antlr4-go/antlr/v4"

	parser "github.com/openfga/language/pkg/go/gen"

	"verif/core"
	"verif/gen"
	"verif/ref"
	"verif/rt"
)

// C19, step 3: bind the grammar text, the serialised automata and the generated
// Go lexer/parser to each other without the ANTLR tool. Sentences derived from
// the .g4 files (and all their single-token mutations) are decided by (i) a
// recogniser interpreting OpenFGAParser.g4, (ii) an interpreter running the
// deserialised parser ATN and (iii) the generated Go parser fed with exactly
// that token sequence; all three must agree and on acceptance the Go parse tree
// must equal the derivation tree. Lexeme strings are tokenised by a reference
// lexer interpreting OpenFGALexer.g4 and by the generated Go lexer.

type c19DynCase struct {
	Sentence []string `json:"sentence,omitempty"`
	Text     string   `json:"text,omitempty"`
}

type countingListener struct {
	*antlr.DefaultErrorListener
	n     int
	first string
}

func (c *countingListener) SyntaxError(_ antlr.Recognizer, _ interface{}, line, column int, msg string, _ antlr.RecognitionException) {
	if c.n == 0 {
		c.first = fmt.Sprintf("%d:%d %s", line, column, msg)
	}
	c.n++
}

// listSource feeds a fixed token list to the parser; it embeds a real lexer so
// that it satisfies antlr.TokenSource (which has unexported methods).
type listSource struct {
	*parser.OpenFGALexer
	toks []antlr.Token
	i    int
}

func (l *listSource) NextToken() antlr.Token {
	if l.i < len(l.toks) {
		t := l.toks[l.i]
		l.i++
		return t
	}
	return l.toks[len(l.toks)-1]
}

// goParse runs the generated parser's start rule on a token-type sequence.
func goParse(types []int, names []string) (accepted bool, tree string, firstErr string, panicked any) {
	defer func() {
		if p := recover(); p != nil {
			panicked = p
		}
	}()
	lx := parser.NewOpenFGALexer(antlr.NewInputStream(""))
	lx.RemoveErrorListeners()
	pair := lx.GetTokenSourceCharStreamPair()
	src := &listSource{OpenFGALexer: lx}
	col := 0
	for i, t := range types {
		text := names[i]
		tok := antlr.CommonTokenFactoryDEFAULT.Create(pair, t, text, antlr.TokenDefaultChannel, col, col+len(text)-1, 1, col)
		tok.SetTokenIndex(i)
		src.toks = append(src.toks, tok)
		col += len(text) + 1
	}
	eof := antlr.CommonTokenFactoryDEFAULT.Create(pair, antlr.TokenEOF, "<EOF>", antlr.TokenDefaultChannel, col, col-1, 1, col)
	src.toks = append(src.toks, eof)
	stream := antlr.NewCommonTokenStream(src, antlr.TokenDefaultChannel)
	p := parser.NewOpenFGAParser(stream)
	p.RemoveErrorListeners()
	el := &countingListener{DefaultErrorListener: antlr.NewDefaultErrorListener()}
	p.AddErrorListener(el)
	t := p.Main()
	if el.n > 0 {
		return false, "", el.first, nil
	}
	return true, goTree(t, p.GetRuleNames(), p.GetSymbolicNames()), "", nil
}

func goTree(t antlr.Tree, ruleNames, symbolic []string) string {
	switch n := t.(type) {
	case antlr.ErrorNode:
		return "<error>"
	case antlr.TerminalNode:
		tt := n.GetSymbol().GetTokenType()
		if tt == antlr.TokenEOF {
			return "EOF"
		}
		if tt >= 0 && tt < len(symbolic) {
			return symbolic[tt]
		}
		return fmt.Sprintf("<%d>", tt)
	case antlr.RuleContext:
		parts := []string{}
		for _, c := range n.GetChildren() {
			parts = append(parts, goTree(c, ruleNames, symbolic))
		}
		return "(" + ruleNames[n.GetRuleIndex()] + " " + strings.Join(parts, " ") + ")"
	}
	return "?"
}

// goLex runs the generated lexer.
func goLex(text string) (toks []ref.LexToken, nerr int, panicked any) {
	defer func() {
		if p := recover(); p != nil {
			panicked = p
		}
	}()
	lx := parser.NewOpenFGALexer(antlr.NewInputStream(text))
	lx.RemoveErrorListeners()
	el := &countingListener{DefaultErrorListener: antlr.NewDefaultErrorListener()}
	lx.AddErrorListener(el)
	sym := lx.GetSymbolicNames()
	for {
		t := lx.NextToken()
		if t.GetTokenType() == antlr.TokenEOF {
			break
		}
		name := fmt.Sprintf("<%d>", t.GetTokenType())
		if tt := t.GetTokenType(); tt > 0 && tt < len(sym) {
			name = sym[tt]
		}
		ch := ""
		if t.GetChannel() != antlr.TokenDefaultChannel {
			ch = "HIDDEN"
		}
		toks = append(toks, ref.LexToken{Type: name, Text: t.GetText(), Channel: ch, Start: t.GetStart()})
	}
	return toks, el.n, nil
}

type c19Machines struct {
	lexG, parG *ref.Grammar
	rec        *ref.Recogniser
	atn        *ref.ATNRecogniser
	types      map[string]int
	names      []string // symbolic names by type
	refLexer   *ref.RefLexer
}

func c19Load(ctx *core.Ctx) *c19Machines {
	repo := RepoRoot()
	lg, err1 := ref.ParseG4(readFile(filepath.Join(repo, "OpenFGALexer.g4")))
	pg, err2 := ref.ParseG4(readFile(filepath.Join(repo, "OpenFGAParser.g4")))
	if err1 != nil || err2 != nil {
		ctx.Violation("grammar-unreadable", fmt.Sprintf("the grammar files cannot be read by the reference reader: %v %v", err1, err2), c19Case{"g4"}, "", "")
		return nil
	}
	a := loadArtefacts(repo, "go", false)
	if len(a.errs) > 0 {
		return nil // reported by the static part
	}
	at, err := ref.DeserializeATN(a.atn)
	if err != nil {
		return nil
	}
	m := &c19Machines{lexG: lg, parG: pg, types: map[string]int{}, names: a.symbolic}
	for i, s := range a.symbolic {
		if s != "null" {
			m.types[s] = i
		}
	}
	m.rec = ref.NewRecogniser(pg, a.symbolic)
	m.atn = &ref.ATNRecogniser{A: at, Types: m.types}
	m.refLexer = ref.NewRefLexer(lg)
	return m
}

// c19Sentence decides one sentence three ways.
func c19Sentence(ctx *core.Ctx, m *c19Machines, s []string, wantTree bool) (accepted bool, ok bool) {
	ctx.Trans(1)
	cs := c19DynCase{Sentence: s}
	gAcc, gTree := m.rec.Parse("main", s)
	aAcc, err := m.atn.Accepts(0, s)
	if err != nil {
		return false, true // token outside the vocabulary: not a sentence over this vocabulary
	}
	types := make([]int, len(s))
	for i, n := range s {
		types[i] = m.types[n]
	}
	pAcc, pTree, pErr, pn := goParse(types, s)
	if pn != nil {
		ctx.Violation("generated-parser-panics", fmt.Sprintf("the generated Go parser panicked on the token sequence %v: %v", s, pn), cs, "", fmt.Sprint(pn))
		return false, false
	}
	if gAcc != aAcc {
		ctx.Violation("grammar-and-atn-disagree", fmt.Sprintf("OpenFGAParser.g4 (interpreted) says accept=%v, the serialised parser ATN says accept=%v for %v: the generated automaton was not produced from this grammar text", gAcc, aAcc, s), cs, fmt.Sprint(gAcc), fmt.Sprint(aAcc))
		return false, false
	}
	if gAcc != pAcc {
		ctx.Violation("grammar-and-generated-parser-disagree", fmt.Sprintf("OpenFGAParser.g4 (interpreted) says accept=%v, the generated Go parser says accept=%v (%s) for %v", gAcc, pAcc, pErr, s), cs, fmt.Sprint(gAcc), fmt.Sprint(pAcc)+" "+pErr)
		return false, false
	}
	if gAcc && wantTree {
		if gTree == nil {
			ctx.Count("derivation_tree_not_reconstructed", 1)
		} else if gTree.String() != pTree {
			ctx.Violation("parse-tree-differs", fmt.Sprintf("the generated Go parser builds another tree than the grammar's derivation for %v", s), cs, gTree.String(), pTree)
			return true, false
		}
	}
	if gAcc {
		ctx.Flag("c19:sentence-accepted")
	} else {
		ctx.Flag("c19:sentence-rejected")
	}
	return gAcc, true
}

// deriveSentence writes one derivation of rule into out, drawing every decision from the choice machine.
type deriver struct {
	g     *ref.Grammar
	out   []string
	depth int
	fail  bool
	all   []string
}

func (d *deriver) alts(alts []*ref.Alt) {
	c := 0
	if len(alts) > 1 {
		c = rt.Choose("G.alt", len(alts))
	}
	for _, e := range alts[c].Elems {
		d.elem(e)
		if d.fail {
			return
		}
	}
}

func (d *deriver) elem(e *ref.Elem) {
	switch e.Suffix {
	case 0:
		d.one(e)
	case '?':
		if rt.Choose("G.opt", 2) == 1 {
			d.one(e)
		}
	case '*', '+':
		if e.Suffix == '+' {
			d.one(e)
		}
		for i := 0; i < 3 && !d.fail; i++ {
			if rt.Choose("G.loop", 2) == 0 {
				break
			}
			d.one(e)
		}
	}
}

func (d *deriver) one(e *ref.Elem) {
	if d.fail {
		return
	}
	switch e.Kind {
	case ref.ETokenRef:
		d.out = append(d.out, e.Name)
	case ref.EEOF:
		// appended by the recognisers
	case ref.ERuleRef:
		d.depth++
		if d.depth > 12 {
			d.fail = true
			return
		}
		d.alts(d.g.ByName[e.Name].Alts)
		d.depth--
	case ref.EBlock:
		d.alts(e.Alts)
	case ref.ENot, ref.EAny:
		// a representative of the complement: a few token kinds
		reps := []string{"IDENTIFIER", "WHITESPACE", "LBRACE", "HASH", "STRING", "RPAREN"}
		var ok []string
		for _, r := range reps {
			if e.Kind == ref.EAny || !notSetHas(e.Sub, r) {
				ok = append(ok, r)
			}
		}
		d.out = append(d.out, ok[rt.Choose("G.set", len(ok))])
	}
}

func notSetHas(e *ref.Elem, t string) bool {
	switch e.Kind {
	case ref.ETokenRef:
		return e.Name == t
	case ref.EBlock:
		for _, a := range e.Alts {
			if len(a.Elems) == 1 && notSetHas(a.Elems[0], t) {
				return true
			}
		}
	}
	return false
}

func c19Dynamic(ctx *core.Ctx) {
	m := c19Load(ctx)
	if m == nil {
		return
	}
	seen := map[string]bool{}
	var sentences [][]string
	addSentence := func(s []string) bool {
		k := strings.Join(s, " ")
		if seen[k] {
			return false
		}
		seen[k] = true
		sentences = append(sentences, append([]string{}, s...))
		return true
	}
	// (a) grammar-driven derivations within a deviation budget
	budget := 3
	if ctx.Thorough() {
		budget = 4
	}
	var d *deriver
	st := rt.Explore(rt.Config{Class: func(string) string { return "G" }, Budget: map[string]int{"G": budget}, MaxExec: 400000, Stop: ctx.Expired},
		func() {
			d = &deriver{g: m.parG}
			d.alts(m.parG.ByName["main"].Alts)
		},
		func(pts []rt.Point) bool {
			if !d.fail && len(d.out) <= 48 {
				addSentence(d.out)
			}
			return true
		})
	if !st.Complete {
		ctx.Cap("grammar-driven sentence enumeration hit its cap")
	}
	if ctx.Shard == 0 {
		ctx.Count("grammar_derivations", st.Executions)
	}
	nGrammar := len(sentences)
	// (b) the renderer's texts, tokenised by the generated lexer (default channel)
	for i, tm := range gen.DSLModels(false) {
		for si, stl := range uniformStyles() {
			if si%3 != i%3 && si != 0 {
				continue
			}
			var r *ref.Rendered
			rt.Run(nil, nil, func() { r = ref.Render(tm.M, &ref.Layout{Style: stl}) })
			toks, _, pn := goLex(r.Text)
			if pn != nil {
				continue
			}
			var s []string
			for _, t := range toks {
				if t.Channel == "" {
					s = append(s, t.Type)
				}
			}
			if len(s) <= 120 {
				addSentence(s)
			}
		}
	}
	if ctx.Shard == 0 {
		ctx.Count("sentences_from_grammar", nGrammar)
		ctx.Count("sentences_from_rendered_texts", len(sentences)-nGrammar)
	}
	var kinds []string
	for _, n := range m.names {
		if n != "null" {
			kinds = append(kinds, n)
		}
	}
	for i, s := range sentences {
		if !ctx.Mine(i) {
			continue
		}
		if ctx.Expired() {
			ctx.Cap("wall-clock cap: not all sentences replayed")
			break
		}
		ctx.Eval(1)
		acc, ok := c19Sentence(ctx, m, s, true)
		if !ok {
			return
		}
		if acc {
			ctx.Nontrivial(strings.Join(s, " "))
		}
		// single-token mutations: every deletion; replacement and insertion of every token kind at every position
		// (quick: for every 8th sentence and sentences of at most 40 tokens)
		if len(s) > 40 || (!ctx.Thorough() && i%8 != 0) {
			continue
		}
		mut := make([]string, 0, len(s)+1)
		for p := 0; p <= len(s); p++ {
			if p < len(s) {
				mut = append(append(mut[:0], s[:p]...), s[p+1:]...)
				if _, ok := c19Sentence(ctx, m, mut, true); !ok {
					return
				}
			}
			for _, k := range kinds {
				if p < len(s) && k != s[p] {
					mut = append(append(append(mut[:0], s[:p]...), k), s[p+1:]...)
					if _, ok := c19Sentence(ctx, m, mut, true); !ok {
						return
					}
				}
				mut = append(append(append(mut[:0], s[:p]...), k), s[p:]...)
				if _, ok := c19Sentence(ctx, m, mut, true); !ok {
					return
				}
			}
		}
		ctx.Flag("c19:mutations")
	}
	c19Subtrees(ctx, m, sentences[nGrammar:])
	c19Lexer(ctx, m)
	if ctx.Shard == 0 && ctx.WantSample() && len(sentences) > 0 {
		ctx.Sample(map[string]any{"sentence_from_grammar": sentences[min(len(sentences)-1, 40)]})
	}
}

// c19Subtrees: in a set of base sentences, the yield of every rule occurrence is replaced by every derivation of
// that rule within a deviation budget (as the grammar text reads now): each alternative of each rule is exercised
// in real contexts, so that an edit of the grammar text that was not regenerated shows as a disagreement.
func c19Subtrees(ctx *core.Ctx, m *c19Machines, pool [][]string) {
	// base sentences: the longest distinct accepted ones, spread over the pool
	var bases [][]string
	step := len(pool)/24 + 1
	if ctx.Thorough() {
		step = len(pool)/96 + 1
	}
	for i := 0; i < len(pool); i += step {
		if len(pool[i]) <= 90 {
			bases = append(bases, pool[i])
		}
	}
	budget := 2
	// derivations per rule are the same for every occurrence: enumerate once
	derivs := map[string][][]string{}
	for _, r := range m.parG.Rules {
		var d *deriver
		seen := map[string]bool{}
		rt.Explore(rt.Config{Class: func(string) string { return "G" }, Budget: map[string]int{"G": budget}, MaxExec: 20000},
			func() {
				d = &deriver{g: m.parG}
				d.alts(r.Alts)
			},
			func(pts []rt.Point) bool {
				if !d.fail && len(d.out) <= 24 {
					k := strings.Join(d.out, " ")
					if !seen[k] {
						seen[k] = true
						derivs[r.Name] = append(derivs[r.Name], append([]string{}, d.out...))
					}
				}
				return true
			})
		if ctx.Shard == 0 {
			ctx.Count("subtree_derivations_"+r.Name, len(derivs[r.Name]))
		}
	}
	k := 0
	for _, b := range bases {
		acc, tree := m.rec.Parse("main", b)
		if !acc || tree == nil {
			continue
		}
		var nodes []*ref.Node
		var walk func(n *ref.Node)
		walk = func(n *ref.Node) {
			if n.Rule != "" {
				nodes = append(nodes, n)
				for _, c := range n.Ch {
					walk(c)
				}
			}
		}
		walk(tree)
		for _, n := range nodes {
			if n.Rule == "main" {
				continue
			}
			for _, d := range derivs[n.Rule] {
				k++
				if !ctx.Mine(k) {
					continue
				}
				if ctx.Expired() {
					ctx.Cap("wall-clock cap in subtree replacement")
					return
				}
				end := n.End
				if end > len(b) {
					end = len(b)
				}
				s := append(append(append([]string{}, b[:n.Start]...), d...), b[end:]...)
				ctx.Eval(1)
				if _, ok := c19Sentence(ctx, m, s, true); !ok {
					return
				}
				ctx.Flag("c19:subtree-replacement")
			}
		}
	}
}

// c19Lexer compares the reference lexer (OpenFGALexer.g4 interpreted) with the generated Go lexer.
var c19LexAlphabet = []string{
	"a", "B", "_", "1", "0x", ".", " ", "\t", "\n", "\r", "\f", "#", ":", ",", "[", "]", "(", ")", "<", ">", "=", "==", "!=", "<=", "&&", "||", "!", "{", "}", "-", "/", "*", "%", "+", "?",
	"\"", "'", "\\", "e", "u", "r", "b", "é", "$", "//", "and", "or", "but not", "but", "from", "type", "condition", "model", "schema", "module", "extend", "relations", "relation", "define", "with", "in", "true", "null", "int", "list", "map", "1.1",
}

func c19Lexer(ctx *core.Ctx, m *c19Machines) {
	k := 2
	if ctx.Thorough() {
		k = 3
	}
	contexts := []string{"", "condition ", "condition c(", "condition c(x: int) {"}
	base := 1 << 24
	for ci, cx := range contexts {
		for n := 0; n <= k; n++ {
			gen.LexemeStrings(c19LexAlphabet, n, func(i int, s string) {
				if !ctx.Mine(base + i) {
					return
				}
				text := cx + s
				if strings.Contains(text, "\"\"\"") || strings.Contains(text, "'''") {
					return // triple-quoted strings use non-greedy loops, which the reference lexer does not judge
				}
				ctx.Trans(1)
				want, werrs, undecided := m.refLexer.Lex(text)
				if undecided {
					ctx.Count("lexer_inputs_not_judged", 1)
					return
				}
				got, nerr, pn := goLex(text)
				cs := c19DynCase{Text: text}
				if pn != nil {
					ctx.Violation("generated-lexer-panics", fmt.Sprintf("the generated Go lexer panicked on %q: %v", text, pn), cs, "", fmt.Sprint(pn))
					return
				}
				var a, b []string
				for _, t := range want {
					a = append(a, fmt.Sprintf("%s%s=%q", t.Type, t.Channel, t.Text))
				}
				for _, t := range got {
					b = append(b, fmt.Sprintf("%s%s=%q", t.Type, t.Channel, t.Text))
				}
				if strings.Join(a, " ") != strings.Join(b, " ") || len(werrs) != nerr {
					ctx.Violation("lexer-differs-from-grammar", fmt.Sprintf("%q: OpenFGALexer.g4 (interpreted) gives %v with %d errors, the generated Go lexer gives %v with %d errors", text, a, len(werrs), b, nerr),
						cs, strings.Join(a, " "), strings.Join(b, " "))
					return
				}
				ctx.Flag("c19:lexer-compared")
			})
			base += gen.Pow(len(c19LexAlphabet), n)
		}
		_ = ci
	}
}

var _ = os.Getenv
