package checks

import "verif/core"

// c19Dynamic: grammar sentences replayed on the generated Go parser (step 3). Filled in below.
func c19Dynamic(ctx *core.Ctx) {}
