package checks

import (
	"fmt"
	"sort"
	"strings"

	openfgav1 "github.com/openfga/api/proto/openfga/v1"

	"github.com/openfga/language/pkg/go/transformer"

	"verif/core"
	"verif/ref"
	"verif/rt"
)

// layoutCase identifies one rendering of one model: replayable.
type layoutCase struct {
	Tag     string         `json:"tag,omitempty"`
	Model   *ref.Model     `json:"model"`
	Style   map[string]int `json:"style,omitempty"`
	Choices []int          `json:"choices,omitempty"`
	Text    string         `json:"text,omitempty"`
	Extra   string         `json:"extra,omitempty"`
}

func classL(site string) string {
	if strings.HasPrefix(site, "L.") {
		return "L"
	}
	return "other"
}

// uniformStyles lists the default style plus every uniform style (one
// alternative applied at every site of one kind).
func uniformStyles() []map[string]int {
	out := []map[string]int{nil}
	kinds := make([]string, 0, len(ref.LayoutKinds))
	for k := range ref.LayoutKinds {
		kinds = append(kinds, k)
	}
	sort.Strings(kinds)
	for _, k := range kinds {
		for s := 1; s < ref.LayoutKinds[k]; s++ {
			out = append(out, map[string]int{k: s})
		}
	}
	// combined styles: a "Windows editor" file and a "tabs everywhere" file
	out = append(out, map[string]int{"eol": 1, "indent": 1, "ws1": 2, "trail": 1})
	out = append(out, map[string]int{"gap": 3, "trail": 1, "paren": 1, "wsparen": 1, "rnl": 1, "ws0": 1})
	return out
}

// forLayouts renders m under the canonical style with every deviation set
// within devBudget, and under every uniform style with styleDev deviations.
// f gets the rendering and a replayable case; it returns false to stop.
func forLayouts(ctx *core.Ctx, tag string, m *ref.Model, devBudget, styleDev int, f func(r *ref.Rendered, lc *layoutCase)) {
	forLayoutsSome(ctx, tag, m, devBudget, styleDev, nil, f)
}

// forLayoutsSome is forLayouts over the uniform styles that keep selects (nil: all; the canonical style is number 0).
func forLayoutsSome(ctx *core.Ctx, tag string, m *ref.Model, devBudget, styleDev int, keep func(si int) bool, f func(r *ref.Rendered, lc *layoutCase)) {
	for si, st := range uniformStyles() {
		if keep != nil && !keep(si) {
			continue
		}
		b := styleDev
		if si == 0 {
			b = devBudget
		}
		var cur *ref.Rendered
		lay := &ref.Layout{Style: st}
		rt.Explore(rt.Config{Class: classL, Budget: map[string]int{"L": b}, Stop: ctx.Expired},
			func() { cur = ref.Render(m, lay) },
			func(pts []rt.Point) bool {
				for _, p := range pts {
					if p.Choice != 0 || st != nil {
						k := strings.TrimPrefix(p.Site, "L.")
						alt := p.Choice
						if s, ok := st[k]; ok {
							alt = (alt + s) % p.N
						}
						ctx.Flag(fmt.Sprintf("layout:%s:%d", k, alt))
					}
				}
				f(cur, &layoutCase{Tag: tag, Model: m, Style: st, Choices: rt.Choices(pts)})
				return true
			})
	}
	if ctx.Expired() {
		ctx.Cap("wall-clock cap during layout enumeration")
	}
}

// renderCase re-renders a recorded layout case.
func renderCase(lc *layoutCase) *ref.Rendered {
	var cur *ref.Rendered
	rt.Run(lc.Choices, nil, func() { cur = ref.Render(lc.Model, &ref.Layout{Style: lc.Style}) })
	return cur
}

func layoutGuards(r *core.Result) error {
	for k, n := range ref.LayoutKinds {
		for a := 1; a < n; a++ {
			if !r.Flags[fmt.Sprintf("layout:%s:%d", k, a)] {
				return fmt.Errorf("layout alternative %s:%d never exercised", k, a)
			}
		}
	}
	return nil
}

// parseModel runs the DSL parser entry point fit for the document kind,
// guarding against panics.
func parseDoc(text string, modular bool) (m *openfgav1.AuthorizationModel, ext map[string]*openfgav1.TypeDefinition, err error, panicked any) {
	defer func() {
		if p := recover(); p != nil {
			panicked = p
		}
	}()
	if modular {
		m, ext, err = transformer.TransformModularDSLToProto(text)
		return
	}
	m, err = transformer.TransformDSLToProto(text)
	return
}

func printModel(m *openfgav1.AuthorizationModel, opts ...transformer.TransformOption) (s string, err error, panicked any) {
	defer func() {
		if p := recover(); p != nil {
			panicked = p
		}
	}()
	s, err = transformer.TransformJSONProtoToDSL(m, opts...)
	return
}

var laxDump = ref.DumpOpts{}
var strictDump = ref.DumpOpts{Strict: true}
