package checks

import (
	"fmt"
	"path/filepath"
	"regexp"
	"sort"
	"strconv"
	"strings"

	"verif/core"
)

// C19, rule-body skeletons. The generated rule methods of the Go, TypeScript and Java parsers come from one code-generation
// model: per rule the same sequence of state numbers, token matches, rule invocations, prediction decisions, alternatives
// and look-ahead token sets, only spelled in three languages. A hand edit of a rule body in ONE package (a token dropped from
// a case list, a mask changed, a call to another rule) leaves the serialised automaton, the .interp and .tokens files and
// every name table untouched; the Go package can be driven with sentences (c19dyn.go), the other two cannot be executed
// here - but their skeletons can be read and compared, element by element, with Go's and with each other.

type skelRule struct {
	name string
	els  []string
}

var (
	reGoRule   = regexp.MustCompile(`^func \(p \*OpenFGAParser\) (\w+)\(\) \(localctx I\w+Context\) \{`)
	reTSRule   = regexp.MustCompile(`^\tpublic (\w+)\(\): \w+Context \{`)
	reJavaRule = regexp.MustCompile(`^\tpublic final \w+Context (\w+)\(\) throws RecognitionException \{`)

	reState   = regexp.MustCompile(`(?:p\.SetState\(|this\.state = |\bsetState\()(\d+)`)
	reMatch   = regexp.MustCompile(`(?:p\.Match\(OpenFGAParser|this\.match\(OpenFGAParser\.|\bmatch\()(\w+)\)`)
	rePredict = regexp.MustCompile(`(?i)adaptivePredict\([^,]*,\s*(?:p\.GetTokenStream\(\),\s*)?(\d+)\s*,`)
	reOuter   = regexp.MustCompile(`(?i)enterOuterAlt\(_?localctx, (\d+)\)`)
	reLAName  = regexp.MustCompile(`_la\s*={2,3}\s*(?:OpenFGAParser\.?)?(\w+)`)
	reMask    = regexp.MustCompile(`<< (?:\(_la - (\d+)\)|_la)\)\s*&\s*(\d+)L?\)`)
	reCaseGo  = regexp.MustCompile(`^\s*case ((?:OpenFGAParser\w+(?:, )?)+):`)
	reCaseOne = regexp.MustCompile(`^\s*case (?:OpenFGAParser\.)?(\w+):`)
	reWild    = regexp.MustCompile(`_la\s*<=\s*0`)
)

// skeletons reads the rule bodies of one generated parser. tokens maps token names to numbers, rules is the list of rule names.
func skeletons(lang, src string, tokens map[string]int, rules []string) ([]skelRule, error) {
	isRule := map[string]string{}
	for _, r := range rules {
		isRule[strings.ToLower(r)] = r
	}
	tok := func(s string) string {
		s = strings.TrimPrefix(s, "OpenFGAParser")
		s = strings.TrimPrefix(s, ".")
		if n, err := strconv.Atoi(s); err == nil {
			return strconv.Itoa(n)
		}
		if s == "EOF" {
			return "-1"
		}
		if n, ok := tokens[s]; ok {
			return strconv.Itoa(n)
		}
		return "?" + s
	}
	var call *regexp.Regexp
	var head *regexp.Regexp
	switch lang {
	case "go":
		head, call = reGoRule, regexp.MustCompile(`\bp\.(\w+)\(\)`)
	case "js":
		head, call = reTSRule, regexp.MustCompile(`\bthis\.(\w+)\(\)`)
	default:
		head, call = reJavaRule, regexp.MustCompile(`(?:^|[\s=(])(\w+)\(\);`)
	}
	var out []skelRule
	lines := strings.Split(src, "\n")
	for i := 0; i < len(lines); i++ {
		m := head.FindStringSubmatch(lines[i])
		if m == nil {
			continue
		}
		name := m[1]
		if _, ok := isRule[strings.ToLower(name)]; !ok {
			continue
		}
		if lang == "js" && !(i+1 < len(lines) && strings.Contains(lines[i+1], "let localctx")) {
			continue // a context getter of the same name
		}
		end := "}"
		if lang != "go" {
			end = "\t}"
		}
		r := skelRule{name: isRule[strings.ToLower(name)]}
		// switch kinds by nesting: token switches list look-ahead tokens, prediction switches list alternatives
		type sw struct {
			tokenSwitch bool
			depth       int
		}
		var stack []sw
		depth := 0
		var caseSet []string
		flushCases := func() {
			if len(caseSet) > 0 {
				sort.Slice(caseSet, func(a, b int) bool { x, _ := strconv.Atoi(caseSet[a]); y, _ := strconv.Atoi(caseSet[b]); return x < y })
				r.els = append(r.els, "case{"+strings.Join(caseSet, ",")+"}")
				caseSet = nil
			}
		}
		for i++; i < len(lines) && lines[i] != end; i++ {
			l := lines[i]
			isCase := false
			if strings.Contains(l, "switch") && strings.Contains(l, "{") {
				flushCases()
				stack = append(stack, sw{tokenSwitch: strings.Contains(l, "LA(1)"), depth: depth})
			}
			inTokenSwitch := len(stack) > 0 && stack[len(stack)-1].tokenSwitch
			if inTokenSwitch {
				if mm := reCaseGo.FindStringSubmatch(l); mm != nil && lang == "go" {
					for _, t := range strings.Split(mm[1], ", ") {
						caseSet = append(caseSet, tok(t))
					}
					isCase = true
				} else if mm := reCaseOne.FindStringSubmatch(l); mm != nil && lang != "go" {
					caseSet = append(caseSet, tok(mm[1]))
					isCase = true
				}
			}
			if !isCase && strings.TrimSpace(l) != "" {
				flushCases()
			}
			if mm := reOuter.FindStringSubmatch(l); mm != nil {
				r.els = append(r.els, "alt"+mm[1])
			}
			if mm := reState.FindStringSubmatch(l); mm != nil {
				r.els = append(r.els, "s"+mm[1])
			}
			if mm := rePredict.FindStringSubmatch(l); mm != nil {
				r.els = append(r.els, "predict"+mm[1])
			}
			if mm := reMatch.FindStringSubmatch(l); mm != nil {
				r.els = append(r.els, "match("+tok(mm[1])+")")
			}
			for _, mm := range call.FindAllStringSubmatch(l, -1) {
				if rn, ok := isRule[strings.ToLower(mm[1])]; ok {
					r.els = append(r.els, "call("+rn+")")
				}
			}
			// look-ahead tests on _la: named comparisons and bit masks, per line
			if strings.Contains(l, "_la") && !strings.Contains(l, "LA(1)") {
				set := map[int]bool{}
				for _, mm := range reLAName.FindAllStringSubmatch(l, -1) {
					if n, err := strconv.Atoi(tok(mm[1])); err == nil {
						set[n] = true
					} else {
						r.els = append(r.els, "la?"+mm[1])
					}
				}
				for _, mm := range reMask.FindAllStringSubmatch(l, -1) {
					off := 0
					if mm[1] != "" {
						off, _ = strconv.Atoi(mm[1])
					}
					mask, err := strconv.ParseUint(mm[2], 10, 64)
					if err != nil {
						r.els = append(r.els, "mask?"+mm[2])
						continue
					}
					for b := 0; b < 64; b++ {
						if mask&(1<<uint(b)) != 0 {
							set[off+b] = true
						}
					}
				}
				if len(set) > 0 {
					var ns []int
					for n := range set {
						ns = append(ns, n)
					}
					sort.Ints(ns)
					neg := ""
					if strings.Contains(l, "!(") || reWild.MatchString(l) {
						neg = "not"
					}
					r.els = append(r.els, fmt.Sprintf("la%s%v", neg, ns))
				}
			}
			depth += strings.Count(l, "{") - strings.Count(l, "}")
			for len(stack) > 0 && depth <= stack[len(stack)-1].depth {
				flushCases()
				stack = stack[:len(stack)-1]
			}
		}
		flushCases()
		out = append(out, r)
	}
	if len(out) == 0 {
		return nil, fmt.Errorf("no rule methods found in the %s parser", lang)
	}
	return out, nil
}

// c19Skeletons compares the rule-body skeletons of the three generated parsers.
func c19Skeletons(ctx *core.Ctx) {
	repo := RepoRoot()
	viol := func(kind, what string) { ctx.Violation(kind, what, c19Case{what}, "", "") }
	goA := loadArtefacts(repo, "go", false)
	if len(goA.errs) > 0 || len(goA.rules) == 0 {
		return // reported by the static part
	}
	files := map[string]string{
		"go":   filepath.Join(repo, "pkg", "go", "gen", "openfga_parser.go"),
		"js":   filepath.Join(repo, "pkg", "js", "gen", "OpenFGAParser.ts"),
		"java": filepath.Join(repo, "pkg", "java", "src", "main", "gen", "dev", "openfga", "language", "antlr", "OpenFGAParser.java"),
	}
	sk := map[string][]skelRule{}
	for _, lang := range []string{"go", "js", "java"} {
		s, err := skeletons(lang, readFile(files[lang]), goA.tokens, goA.rules)
		if err != nil {
			viol("rule-bodies-unreadable", err.Error())
			return
		}
		sk[lang] = s
		ctx.Count("rule_bodies_"+lang, len(s))
		n := 0
		for _, r := range s {
			n += len(r.els)
			for _, e := range r.els {
				if strings.Contains(e, "?") {
					viol("rule-body-element-unreadable", fmt.Sprintf("%s parser, rule %s: cannot read %s", lang, r.name, e))
					return
				}
			}
		}
		ctx.Count("rule_body_elements_"+lang, n)
		ctx.Trans(n)
	}
	if len(sk["go"]) != len(goA.rules) {
		viol("rule-bodies-missing", fmt.Sprintf("the Go parser has %d rule methods for %d rules", len(sk["go"]), len(goA.rules)))
		return
	}
	for _, other := range []string{"js", "java"} {
		a, b := sk["go"], sk[other]
		if len(a) != len(b) {
			viol("rule-bodies-differ", fmt.Sprintf("go has %d rule methods, %s has %d", len(a), other, len(b)))
			return
		}
		for i := range a {
			if a[i].name != b[i].name {
				viol("rule-bodies-differ", fmt.Sprintf("rule method %d: go %s, %s %s", i, a[i].name, other, b[i].name))
				return
			}
			x, y := a[i].els, b[i].els
			for k := 0; k < len(x) || k < len(y); k++ {
				var ex, ey string
				if k < len(x) {
					ex = x[k]
				}
				if k < len(y) {
					ey = y[k]
				}
				if ex != ey {
					viol("rule-bodies-differ", fmt.Sprintf("rule %s, element %d of the generated method: go has %q, %s has %q (the automata and name tables may still agree: a hand edit of one generated rule body)", a[i].name, k, ex, other, ey))
					return
				}
			}
			ctx.State("skeleton:" + a[i].name)
		}
	}
	ctx.Flag("c19:rule-bodies")
	if ctx.WantSample() {
		for _, r := range sk["go"] {
			if r.name == "relationDefNoDirect" {
				ctx.Sample(map[string]any{"kind": "rule-body skeleton (identical in go, js, java)", "rule": r.name, "elements": r.els})
			}
		}
	}
}
