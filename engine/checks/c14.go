package checks

import (
	"encoding/json"
	"fmt"
	"sort"
	"strings"

	openfgav1 "github.com/openfga/api/proto/openfga/v1"
	"google.golang.org/protobuf/encoding/protojson"
	"google.golang.org/protobuf/proto"

	"github.com/openfga/language/pkg/go/transformer"

	"verif/core"
	"verif/gen"
	"verif/ref"
	"verif/rt"
)

// C14 — DSL output is canonical and source-info comments are inert.

type c14Case struct {
	Model   *ref.Model `json:"model"`
	Perm    []int      `json:"type_perm,omitempty"`
	Source  bool       `json:"include_source"`
	Choices []int      `json:"choices,omitempty"`
	JSONEnc int        `json:"json_encoding,omitempty"`
	// After > 0: the print follows a failed print of failing variant After of the same model (with AfterSource)
	After       int  `json:"after_failed_variant,omitempty"`
	AfterSource bool `json:"after_failed_with_source,omitempty"`
}

type attr struct{ mod, file string }

// a file without a module is "unattributed" (it sorts by name with the other unattributed items): the statement's
// determinism clauses cover such items too
var c14Attrs = []attr{{"", ""}, {"a", "f1.fga"}, {"a", "f 2#,: x.fga"}, {"b", "f1.fga"}, {"b", ""}, {"", "f1.fga"}, {"", "zz.fga"}}

// c14Modular enumerates modular models: three types whose module/file
// attribution ranges over c14Attrs (at least one attributed), relations of the
// first type attributed to extensions, conditions attributed likewise.
func c14Modular(thorough bool) []gen.Tagged {
	var out []gen.Tagged
	relAttrs := []attr{{"", ""}, {"a", "f 2#,: x.fga"}, {"b", "f1.fga"}, {"a", "f1.fga"}, {"", "zz.fga"}, {"", "f1.fga"}}
	n := len(c14Attrs)
	for i := 0; i < n*n*n; i++ {
		a := []attr{c14Attrs[i%n], c14Attrs[(i/n)%n], c14Attrs[i/(n*n)]}
		if a[0].mod == "" && a[1].mod == "" && a[2].mod == "" {
			continue
		}
		for ra := 0; ra < len(relAttrs)*len(relAttrs); ra++ {
			if !thorough && (i+ra)%11 != 0 {
				continue
			}
			r1, r2 := relAttrs[ra%len(relAttrs)], relAttrs[ra/len(relAttrs)]
			if a[0].mod == "" && (r1.mod != "" || r2.mod != "") {
				continue // relations of an unattributed type are not extended
			}
			m := &ref.Model{Schema: "1.2", Types: []ref.TypeDef{
				{Name: "zdoc", Module: a[0].mod, File: a[0].file, Rels: []ref.Relation{
					{Name: "viewer", Rw: ref.U(ref.T(), ref.C("editor")), Restr: []ref.Restriction{{Type: "auser"}, {Type: "auser", Condition: "c2"}}},
					{Name: "editor", Rw: ref.T(), Restr: []ref.Restriction{{Type: "auser"}}, Module: r1.mod, File: r1.file},
					{Name: "admin", Rw: ref.TT("viewer", "editor"), Module: r2.mod, File: r2.file},
					{Name: "b-owner", Rw: ref.T(), Restr: []ref.Restriction{{Type: "mgroup", Relation: "member"}}},
				}},
				{Name: "auser", Module: a[1].mod, File: a[1].file},
				{Name: "mgroup", Module: a[2].mod, File: a[2].file, Rels: []ref.Relation{{Name: "member", Rw: ref.T(), Restr: []ref.Restriction{{Type: "auser"}}}}},
			}, Conds: []ref.Condition{
				{Name: "c2", Params: []ref.Param{{Name: "z", Type: "int"}, {Name: "a", Type: "list", Generic: "string"}, {Name: "m", Type: "bool"}}, Expr: "z > 0", Module: a[0].mod, File: a[0].file},
				{Name: "c1", Params: []ref.Param{{Name: "x", Type: "string"}}, Expr: "x == x", Module: a[2].mod, File: a[2].file},
				{Name: "c0", Params: []ref.Param{{Name: "y", Type: "uint"}}, Expr: "y == y", Module: a[1].mod, File: a[1].file},
			}}
			out = append(out, gen.Tagged{Tag: fmt.Sprintf("modular:%d/%d", i, ra), M: m})
		}
	}
	return out
}

func refKey(mod, file, name string) string {
	if mod == "" {
		return "0\x00" + name
	}
	return "1\x00" + mod + "\x00" + file + "\x00" + name
}

// c14ExpectedOrder computes the documented order from the AST.
func c14ExpectedOrder(m *ref.Model, perm []int) (types []string, rels map[string][]string, conds []string, params map[string][]string) {
	modular := false
	for _, t := range m.Types {
		if t.Module != "" {
			modular = true
		}
	}
	type it struct{ key, name string }
	var ts []it
	for _, i := range perm {
		t := m.Types[i]
		ts = append(ts, it{refKey(t.Module, t.File, t.Name), t.Name})
	}
	if modular {
		sort.SliceStable(ts, func(i, j int) bool { return ts[i].key < ts[j].key })
	}
	rels = map[string][]string{}
	for _, x := range ts {
		types = append(types, x.name)
	}
	for _, t := range m.Types {
		var rs []it
		for _, r := range t.Rels {
			k := "0\x00" + r.Name
			if modular {
				k = refKey(r.Module, r.File, r.Name)
			}
			rs = append(rs, it{k, r.Name})
		}
		sort.SliceStable(rs, func(i, j int) bool { return rs[i].key < rs[j].key })
		for _, r := range rs {
			rels[t.Name] = append(rels[t.Name], r.name)
		}
	}
	var cs []it
	params = map[string][]string{}
	for _, c := range m.Conds {
		cs = append(cs, it{refKey(c.Module, c.File, c.Name), c.Name})
		var ps []string
		for _, p := range c.Params {
			ps = append(ps, p.Name)
		}
		sort.Strings(ps)
		params[c.Name] = ps
	}
	sort.SliceStable(cs, func(i, j int) bool { return cs[i].key < cs[j].key })
	for _, c := range cs {
		conds = append(conds, c.name)
	}
	return
}

// c14ObservedOrder reads the order of declarations back from a DSL text.
func c14ObservedOrder(dsl string) (types []string, rels map[string][]string, conds []string, params map[string][]string) {
	rels = map[string][]string{}
	params = map[string][]string{}
	cur := ""
	for _, l := range strings.Split(dsl, "\n") {
		switch {
		case strings.HasPrefix(l, "type "):
			cur = strings.Fields(l)[1]
			types = append(types, cur)
		case strings.HasPrefix(l, "    define "):
			name := strings.TrimPrefix(l, "    define ")
			name = name[:strings.Index(name, ":")]
			rels[cur] = append(rels[cur], name)
		case strings.HasPrefix(l, "condition "):
			rest := strings.TrimPrefix(l, "condition ")
			name := rest[:strings.Index(rest, "(")]
			conds = append(conds, name)
			plist := rest[strings.Index(rest, "(")+1 : strings.Index(rest, ")")]
			for _, p := range strings.Split(plist, ", ") {
				if i := strings.Index(p, ":"); i >= 0 {
					params[name] = append(params[name], p[:i])
				}
			}
		}
	}
	return
}

func stripComments(dsl string) string {
	lines := strings.Split(dsl, "\n")
	for i, l := range lines {
		if j := strings.Index(l, " #"); j >= 0 {
			// only a line that carried a comment loses the blanks before it
			l = strings.TrimRight(l[:j], " ")
		}
		lines[i] = l
	}
	return strings.Join(lines, "\n")
}

func permuteTypes(pm *openfgav1.AuthorizationModel, perm []int) *openfgav1.AuthorizationModel {
	c := proto.Clone(pm).(*openfgav1.AuthorizationModel)
	tds := make([]*openfgav1.TypeDefinition, len(perm))
	for i, p := range perm {
		tds[i] = c.TypeDefinitions[p]
	}
	c.TypeDefinitions = tds
	return c
}

func perms(n int) [][]int {
	if n == 0 {
		return [][]int{{}}
	}
	var out [][]int
	var rec func(cur []int, used []bool)
	rec = func(cur []int, used []bool) {
		if len(cur) == n {
			out = append(out, append([]int{}, cur...))
			return
		}
		for i := 0; i < n; i++ {
			if !used[i] {
				used[i] = true
				rec(append(cur, i), used)
				used[i] = false
			}
		}
	}
	rec(nil, make([]bool, n))
	return out
}

// reencodeJSON rewrites a JSON document as another encoding of the same model. enc%4 chooses the order of object keys
// (sorted, reversed, as sorted, rotated), enc/4 the style: 0 compact; 1 indented, with blanks around every token and every
// string written with \u escapes only; 2 with the optional parts that are absent spelled out as explicit defaults (null
// metadata / relations / conditions, "id": "", "condition": "" on a restriction, "module": "" ...), which proto3 JSON reads
// as absent. (camelCase field names are not an encoding of the same model: the OpenFGA protos pin json_name to snake_case.)
func reencodeJSON(js []byte, enc int) []byte {
	var v any
	if err := json.Unmarshal(js, &v); err != nil {
		panic(err)
	}
	style := enc / 4
	var sb strings.Builder
	str := func(s string) {
		if style != 1 {
			b, _ := json.Marshal(s)
			sb.Write(b)
			return
		}
		sb.WriteString("\"")
		for _, r := range s {
			if r > 0xffff {
				r -= 0x10000
				fmt.Fprintf(&sb, "\\u%04x\\u%04x", 0xd800+(r>>10), 0xdc00+(r&0x3ff))
			} else {
				fmt.Fprintf(&sb, "\\u%04x", r)
			}
		}
		sb.WriteString("\"")
	}
	sep := func(s string) {
		if style == 1 {
			sb.WriteString(" \n\t " + s + " \r\n ")
		} else {
			sb.WriteString(s)
		}
	}
	// kind: what the object is ("root", "typedef", "relref", "" = anything else), decided by the key it hangs under
	var w func(v any, inMap bool, kind string)
	w = func(v any, inMap bool, kind string) {
		switch x := v.(type) {
		case map[string]any:
			if style == 2 && !inMap {
				y := map[string]any{}
				for k, e := range x {
					y[k] = e
				}
				add := func(k string, d any) {
					if _, ok := y[k]; !ok {
						y[k] = d
					}
				}
				switch kind {
				case "root":
					add("id", "")
					add("conditions", nil)
				case "typedef":
					add("metadata", nil)
					add("relations", nil)
				case "relref":
					add("condition", "")
				case "relmeta":
					add("module", "")
					add("source_info", nil)
				}
				x = y
			}
			keys := make([]string, 0, len(x))
			for k := range x {
				keys = append(keys, k)
			}
			sort.Strings(keys)
			switch enc % 4 {
			case 1:
				for i, j := 0, len(keys)-1; i < j; i, j = i+1, j-1 {
					keys[i], keys[j] = keys[j], keys[i]
				}
			case 3:
				if len(keys) > 1 {
					keys = append(keys[1:], keys[0])
				}
			}
			sep("{")
			for i, k := range keys {
				if i > 0 {
					sep(",")
				}
				str(k)
				sep(":")
				// map-valued fields hold user names as keys
				userKeys := !inMap && (k == "relations" || k == "conditions" || k == "parameters")
				sub := ""
				switch {
				case inMap && kind == "relmetas":
					sub = "relmeta"
				case !inMap && k == "relations" && kind == "metadata":
					sub = "relmetas"
				case !inMap && k == "metadata" && kind == "typedef":
					sub = "metadata"
				case !inMap && k == "type_definitions":
					sub = "typedefs"
				case !inMap && k == "directly_related_user_types":
					sub = "relrefs"
				}
				w(x[k], userKeys, sub)
			}
			sep("}")
		case []any:
			sep("[")
			for i, e := range x {
				if i > 0 {
					sep(",")
				}
				w(e, false, strings.TrimSuffix(kind, "s"))
			}
			sep("]")
		case string:
			str(x)
		default:
			b, _ := json.Marshal(x)
			sb.Write(b)
		}
	}
	w(v, false, "root")
	return []byte(sb.String())
}

func toCamel(s string) string {
	parts := strings.Split(s, "_")
	for i := 1; i < len(parts); i++ {
		if parts[i] != "" {
			parts[i] = strings.ToUpper(parts[i][:1]) + parts[i][1:]
		}
	}
	return strings.Join(parts, "")
}

func c14Class(site string) string { return site }

var c14Sites = []string{"transformer.parseType#0", "transformer.parseConditionParams#0", "transformer.parseConditions#0"}

func c14One(ctx *core.Ctx, tag string, m *ref.Model, thorough bool) {
	// large models (the size sweeps): every single deviation at every map site instead of full permutations
	light := modelSize(m) > 8 || len(m.Types) > 8
	pm0 := ref.ToProto(m)
	modular := false
	for _, t := range m.Types {
		if t.Module != "" {
			modular = true
		}
	}
	nT := len(m.Types)
	tperms := [][]int{identity(nT)}
	if modular && nT <= 4 {
		tperms = perms(nT)
	} else if nT > 1 {
		rev := identity(nT)
		for i, j := 0, nT-1; i < j; i, j = i+1, j-1 {
			rev[i], rev[j] = rev[j], rev[i]
		}
		tperms = append(tperms, rev)
	}
	outputs := map[bool]string{} // per option, for modular models: one text across all type permutations
	for _, src := range []bool{false, true} {
		for pi, perm := range tperms {
			pm := permuteTypes(pm0, perm)
			cs := c14Case{Model: m, Perm: perm, Source: src}
			var first string
			have := false
			bad := false
			run := func(cfg rt.Config) {
				var out string
				var err error
				var pn any
				rt.Explore(cfg, func() {
					in := proto.Clone(pm).(*openfgav1.AuthorizationModel)
					out, err, pn = printModel(in, transformer.WithIncludeSourceInformation(src))
				}, func(pts []rt.Point) bool {
					ctx.Trans(1)
					if len(pts) > 0 {
						ctx.Flag("map-sites-reached")
					}
					c := cs
					c.Choices = rt.Choices(pts)
					if pn != nil || err != nil {
						ctx.Violation("print-fails", fmt.Sprintf("printing %s failed: %v %v", tag, err, pn), c, "", "")
						bad = true
						return false
					}
					if !have {
						first, have = out, true
						return true
					}
					if out != first {
						ctx.Violation("output-depends-on-map-order", fmt.Sprintf("%s: DSL text differs between map iteration orders (schedule %v)", tag, c.Choices), c, first, out)
						bad = true
						return false
					}
					return true
				})
			}
			// each printer site fully permuted on its own, then every pair of deviations anywhere
			for _, s := range c14Sites {
				b := -1
				if light {
					b = 1
				}
				run(rt.Config{Class: c14Class, Budget: map[string]int{s: b}, MaxExec: 3000, Stop: ctx.Expired})
				if bad {
					return
				}
				if !thorough && pi > 0 {
					break
				}
			}
			if (pi == 0 || thorough) && !light {
				run(rt.Config{Class: func(string) string { return "" }, Budget: map[string]int{"": 2}, MaxExec: 3000, Stop: ctx.Expired})
				if bad {
					return
				}
			}
			if !have {
				// the wall-clock cap fell before the first execution for this (model, option, type order)
				ctx.Cap("wall-clock cap inside a model (not all options and type orders printed)")
				return
			}
			// order of declarations
			et, er, ec, ep := c14ExpectedOrder(m, perm)
			ot, or, oc, op := c14ObservedOrder(first)
			if fmt.Sprint(et, er, ec, ep) != fmt.Sprint(ot, or, oc, op) {
				ctx.Violation("documented-order", fmt.Sprintf("%s: declarations are not in the documented order\n%s", tag, first), cs,
					fmt.Sprint(et, er, ec, ep), fmt.Sprint(ot, or, oc, op))
				return
			}
			// across type permutations (modular) the text is one
			if modular {
				if prev, ok := outputs[src]; ok && prev != first {
					ctx.Violation("output-depends-on-type-order", fmt.Sprintf("%s: modular model printed differently for type order %v", tag, perm), cs, prev, first)
					return
				}
				outputs[src] = first
			} else if pi == 0 {
				outputs[src] = first
			}
			// JSON encodings
			if pi == 0 {
				js, err := protojson.Marshal(pm)
				if err != nil {
					panic(err)
				}
				for enc := 0; enc < 12; enc++ {
					ctx.Trans(1)
					c := cs
					c.JSONEnc = enc
					re := reencodeJSON(js, enc)
					var dp *string
					var e error
					pn := guard(func() {
						dp, e = transformer.TransformJSONStringToDSL(string(re), transformer.WithIncludeSourceInformation(src))
					})
					if pn != nil || e != nil || dp == nil {
						ctx.Violation("json-encoding-rejected", fmt.Sprintf("%s: JSON encoding %d rejected: %v %v\n%s", tag, enc, e, pn, re), c, "", "")
						return
					}
					if *dp != first {
						ctx.Violation("output-depends-on-json-encoding", fmt.Sprintf("%s: JSON encoding %d of the same model prints differently\n%s", tag, enc, re), c, first, *dp)
						return
					}
				}
			}
			ctx.State(first)
		}
	}
	// source comments are inert
	plain, withSrc := outputs[false], outputs[true]
	cs := c14Case{Model: m, Perm: identity(nT), Source: true}
	if stripComments(withSrc) != plain {
		ctx.Violation("source-comments-not-inert", tag+": stripping the comments of the source-information output does not give the plain output", cs, plain, stripComments(withSrc))
		return
	}
	if withSrc != plain {
		ctx.Flag("source-comments-present")
	}
	m1, _, e1, p1 := parseDoc(plain, false)
	m2, _, e2, p2 := parseDoc(withSrc, false)
	if e1 != nil || e2 != nil || p1 != nil || p2 != nil {
		ctx.Violation("output-does-not-parse", fmt.Sprintf("%s: printed DSL does not parse: %v %v %v %v\n%s", tag, e1, e2, p1, p2, withSrc), cs, "", "")
		return
	}
	if a, b := ref.Dump(m1, strictDump), ref.Dump(m2, strictDump); a != b {
		ctx.Violation("source-comments-change-model", tag+": output with source information parses to a different model", cs, a, b)
		return
	}
	// repeated calls: the text is the same after calls that FAILED part-way (whatever they left behind must not show)
	for vi, bad := range c14FailingVariants(pm0) {
		for _, src := range []bool{false, true} {
			for _, srcBad := range []bool{false, true} {
				_, errBad, pnBad := printModel(proto.Clone(bad).(*openfgav1.AuthorizationModel), transformer.WithIncludeSourceInformation(srcBad))
				if errBad == nil && pnBad == nil {
					continue // this variant is printable after all: nothing failed
				}
				ctx.Flag("c14:after-failed-call")
				ctx.Trans(2)
				out, err, pn := printModel(proto.Clone(pm0).(*openfgav1.AuthorizationModel), transformer.WithIncludeSourceInformation(src))
				if err != nil || pn != nil || out != outputs[src] {
					c := c14Case{Model: m, Perm: identity(nT), Source: src, After: vi + 1, AfterSource: srcBad}
					ctx.Violation("output-depends-on-earlier-failed-call", fmt.Sprintf("%s: after a call that failed (variant %d of the same model: %v) the model prints differently (err=%v panic=%v)", tag, vi+1, errBad, err, pn), c, outputs[src], out)
					return
				}
			}
		}
	}
	ctx.Nontrivial(plain + "\x00" + withSrc)
	if modular {
		ctx.Flag("modular")
	} else {
		ctx.Flag("plain")
	}
	if ctx.WantSample() && modular {
		ctx.Sample(map[string]any{"model": tag, "with_source_information": withSrc})
	}
}

// c14FailingVariants: the model with one unprintable part added where it is reached late - a condition (sorted last) with a
// container parameter without element type, a condition stored under another key than its name, a last type whose relation
// has no rewrite, and one whose direct assignment sits two operators deep.
func c14FailingVariants(pm *openfgav1.AuthorizationModel) []*openfgav1.AuthorizationModel {
	var out []*openfgav1.AuthorizationModel
	mk := func(f func(m *openfgav1.AuthorizationModel)) {
		c := proto.Clone(pm).(*openfgav1.AuthorizationModel)
		f(c)
		out = append(out, c)
	}
	mk(func(m *openfgav1.AuthorizationModel) {
		if m.Conditions == nil {
			m.Conditions = map[string]*openfgav1.Condition{}
		}
		m.Conditions["zzz_bad"] = &openfgav1.Condition{Name: "zzz_bad", Expression: "l == l",
			Parameters: map[string]*openfgav1.ConditionParamTypeRef{"l": {TypeName: openfgav1.ConditionParamTypeRef_TYPE_NAME_LIST}}}
	})
	mk(func(m *openfgav1.AuthorizationModel) {
		if m.Conditions == nil {
			m.Conditions = map[string]*openfgav1.Condition{}
		}
		m.Conditions["zzz_key"] = &openfgav1.Condition{Name: "another_name", Expression: "x < 1",
			Parameters: map[string]*openfgav1.ConditionParamTypeRef{"x": {TypeName: openfgav1.ConditionParamTypeRef_TYPE_NAME_INT}}}
	})
	mk(func(m *openfgav1.AuthorizationModel) {
		m.TypeDefinitions = append(m.TypeDefinitions, &openfgav1.TypeDefinition{Type: "zzz_type",
			Relations: map[string]*openfgav1.Userset{"ok": ref.UsersetProto(ref.C("ok2")), "ok2": ref.UsersetProto(ref.C("ok")), "zz": {}}})
	})
	mk(func(m *openfgav1.AuthorizationModel) {
		deep := ref.U(ref.C("ok"), ref.I(ref.C("ok"), ref.U(ref.C("ok"), ref.T())))
		m.TypeDefinitions = append(m.TypeDefinitions, &openfgav1.TypeDefinition{Type: "zzz_type",
			Relations: map[string]*openfgav1.Userset{"ok": ref.UsersetProto(ref.C("zz")), "zz": ref.UsersetProto(deep)},
			Metadata:  &openfgav1.Metadata{Relations: map[string]*openfgav1.RelationMetadata{"zz": {DirectlyRelatedUserTypes: []*openfgav1.RelationReference{{Type: "user"}}}}}})
	})
	// the same two, attributed to a module that sorts last (a modular model puts unattributed items first)
	mk(func(m *openfgav1.AuthorizationModel) {
		if m.Conditions == nil {
			m.Conditions = map[string]*openfgav1.Condition{}
		}
		m.Conditions["zzz_bad"] = &openfgav1.Condition{Name: "zzz_bad", Expression: "l == l",
			Parameters: map[string]*openfgav1.ConditionParamTypeRef{"l": {TypeName: openfgav1.ConditionParamTypeRef_TYPE_NAME_MAP}},
			Metadata:   &openfgav1.ConditionMetadata{Module: "zzzz", SourceInfo: &openfgav1.SourceInfo{File: "zzzz.fga"}}}
	})
	mk(func(m *openfgav1.AuthorizationModel) {
		m.TypeDefinitions = append(m.TypeDefinitions, &openfgav1.TypeDefinition{Type: "zzz_type",
			Relations: map[string]*openfgav1.Userset{"ok": ref.UsersetProto(ref.C("ok2")), "ok2": ref.UsersetProto(ref.C("ok")), "zz": {}},
			Metadata:  &openfgav1.Metadata{Module: "zzzz", SourceInfo: &openfgav1.SourceInfo{File: "zzzz.fga"}}})
	})
	return out
}

func identity(n int) []int {
	p := make([]int, n)
	for i := range p {
		p[i] = i
	}
	return p
}

func c14Models(thorough bool) []gen.Tagged {
	var out []gen.Tagged
	for _, tm := range gen.DSLModels(false) {
		if tm.M.Module == "" {
			out = append(out, tm)
		}
	}
	out = append(out, c14Modular(thorough)...)
	out = append(out, gen.TwinModular()...)
	// size sweeps: many items tied on (module, file); plain sweeps
	sizes := gen.SweepSizesSmall
	if thorough {
		sizes = gen.SweepSizes
	}
	for _, n := range sizes {
		for _, kind := range []string{"relations", "types", "conditions"} {
			out = append(out, gen.SweepModular(kind, n))
		}
		out = append(out, gen.SweepRelations(n), gen.SweepConditions(n), gen.SweepParams(n), gen.SweepModules(n))
	}
	return out
}

func c14Run(ctx *core.Ctx) {
	for i, tm := range c14Models(ctx.Thorough()) {
		if !ctx.Mine(i) {
			continue
		}
		if ctx.Expired() {
			ctx.Cap("wall-clock cap: not all models printed")
			return
		}
		ctx.Eval(1)
		c14One(ctx, tm.Tag, tm.M, ctx.Thorough())
	}
}

func init() {
	core.Register(&core.Check{
		ID: "C14",
		Rule: "plain models (generator families) and modular models (3 types x 7 module/file attributions incl. file names with space # , : , module without file and file without module; relations attributed to extensions; 3 conditions) and size sweeps (4..128 relations / types / conditions over five tied (module, file) groups incl. module without file and unattributed; plain sweeps; single deviations at every map site instead of full permutations) " +
			"x both option values x every permutation of the type-definition list (modular) / reversal (plain) x map schedules of the printer's three map-iteration sites " +
			"(each site fully permuted on its own, plus every pair of deviations anywhere) x 12 JSON encodings (object key order as marshalled/descending/ascending/rotated at every nesting level x three styles: compact; white space around every token with every string in \\u escapes; absent optional parts spelled out as explicit null / empty defaults). " +
			"states = distinct DSL texts, non-trivial = distinct (plain, with-source) output pairs",
		Assume: []string{
			"map iteration order is owned by source rewriting of every `range <map>` in pkg/go/transformer (controlled iteration); protojson/encoding of third parties is treated as atomic",
			"items with a file but no module count as unattributed (sorted by name among the unattributed items)",
		},
		Technique: "exhaustive exploration of map-iteration schedules (deviation-bounded stateless DFS over injected choice points) x input permutations, differential oracle plus independent order reference",
		Run:       c14Run,
		Finish: func(r *core.Result) error {
			for _, f := range []string{"modular", "plain", "source-comments-present", "map-sites-reached", "c14:after-failed-call"} {
				if !r.Flags[f] {
					return fmt.Errorf("C14: guard %q never exercised (is the maps overlay active?)", f)
				}
			}
			return nil
		},
		Replay: func(ctx *core.Ctx, c json.RawMessage) {
			var cs c14Case
			if err := json.Unmarshal(c, &cs); err != nil {
				panic(err)
			}
			c14One(ctx, "replay", cs.Model, true)
		},
	})
}
