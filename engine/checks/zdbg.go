package checks

import (
	"fmt"
	"os"
	"strconv"
	"strings"
	"time"

	"github.com/openfga/language/pkg/go/transformer"

	"verif/core"
	"verif/ref"
)

// ZSTEPS is a debugging aid: VERIF_FRAG (Go-quoted), VERIF_CTX -> step counts of cold and warm parses per size.
func init() {
	core.Register(&core.Check{ID: "ZSTEPS", Workers: 1, Rule: "debug", Run: func(ctx *core.Ctx) {
		fr, err := strconv.Unquote(os.Getenv("VERIF_FRAG"))
		if err != nil {
			fr = os.Getenv("VERIF_FRAG")
		}
		ci, _ := strconv.Atoi(os.Getenv("VERIF_CTX"))
		cx := pumpContexts[ci]
		for _, n := range []int{8, 16, 32, 48, 64, 96, 128} {
			text := cx.pre + strings.Repeat(fr, n) + cx.post
			f := func() (bool, error) { m, e := transformer.TransformDSLToProto(text); return m != nil, e }
			t0 := time.Now()
			a := c08Call(f)
			d1 := time.Since(t0)
			b := c08Call(f)
			fmt.Fprintf(os.Stderr, "n=%d cold steps=%d (%v, hang=%v) warm steps=%d err=%v\n", n, a.steps, d1, a.hang, b.steps, a.err != nil)
		}
		ctx.Eval(1)
		ctx.Trans(1)
		ctx.State("x")
		ctx.State("y")
		ctx.Nontrivial("a")
		ctx.Nontrivial("b")
	}})
}

// ZC16 is a debugging aid: renders the named look-alike merge set (VERIF_TAG substring) under every style and prints the
// reference verdict and the implementation's errors.
func init() {
	core.Register(&core.Check{ID: "ZC16", Workers: 1, Rule: "debug", Run: func(ctx *core.Ctx) {
		for _, fs := range c16MergeSets() {
			if !strings.Contains(fs.Tag, os.Getenv("VERIF_TAG")) {
				continue
			}
			for si, st := range uniformStyles() {
				files := renderFiles(fs.Files, st, nil)
				w := ref.MergeRef(toMFiles(fs.Files, []int{0, 1}), "1.2")
				fmt.Fprintf(os.Stderr, "== %s style %d %v\nref: malformed=%v conflicts=%v\n", fs.Tag, si, st, w.Malformed, w.Conflicts)
				var mfs []transformer.ModuleFile
				for _, f := range files {
					mfs = append(mfs, transformer.ModuleFile{Name: f.spec.Name, Contents: f.text})
				}
				m, err := transformer.TransformModuleFilesToModel(mfs, "1.2")
				fmt.Fprintf(os.Stderr, "impl: %v %v\n", m != nil, err)
				if si == 0 || (st != nil && st["rnl"] == 1) {
					for _, f := range files {
						fmt.Fprintf(os.Stderr, "--- %s\n%s\n", f.spec.Name, f.text)
					}
				}
			}
		}
		ctx.Eval(1)
		ctx.Trans(1)
		ctx.State("x")
		ctx.State("y")
		ctx.Nontrivial("a")
		ctx.Nontrivial("b")
	}})
}
