package checks

import (
	"fmt"
	"os"
	"strconv"
	"strings"
	"time"

	"github.com/openfga/language/pkg/go/transformer"

	"verif/core"
)

// ZSTEPS is a debugging aid: VERIF_FRAG (Go-quoted), VERIF_CTX -> step counts of cold and warm parses per size.
func init() {
	core.Register(&core.Check{ID: "ZSTEPS", Workers: 1, Rule: "debug", Run: func(ctx *core.Ctx) {
		fr, err := strconv.Unquote(os.Getenv("VERIF_FRAG"))
		if err != nil {
			fr = os.Getenv("VERIF_FRAG")
		}
		ci, _ := strconv.Atoi(os.Getenv("VERIF_CTX"))
		cx := pumpContexts[ci]
		for _, n := range []int{8, 16, 32, 48, 64, 96, 128} {
			text := cx.pre + strings.Repeat(fr, n) + cx.post
			f := func() (bool, error) { m, e := transformer.TransformDSLToProto(text); return m != nil, e }
			t0 := time.Now()
			a := c08Call(f)
			d1 := time.Since(t0)
			b := c08Call(f)
			fmt.Fprintf(os.Stderr, "n=%d cold steps=%d (%v, hang=%v) warm steps=%d err=%v\n", n, a.steps, d1, a.hang, b.steps, a.err != nil)
		}
		ctx.Eval(1)
		ctx.Trans(1)
		ctx.State("x")
		ctx.State("y")
		ctx.Nontrivial("a")
		ctx.Nontrivial("b")
	}})
}
