package checks

import (
	"encoding/json"
	"fmt"
	"strings"

	"google.golang.org/protobuf/encoding/protojson"

	"github.com/openfga/language/pkg/go/transformer"
	"github.com/openfga/language/pkg/go/utils"

	"verif/core"
	"verif/gen"
	"verif/ref"
)

// C02 — JSON -> DSL succeeds exactly for DSL-expressible models and loses nothing.

// expressible is the reference predicate, written from the statement: at most
// one direct assignment, and it can be placed first - first operand of its
// union/intersection (the printer may hoist it there), base of its exclusion,
// recursively from the root.
func expressible(t *ref.Rewrite) bool {
	n := t.CountThis()
	if n == 0 {
		return true
	}
	return n == 1 && placeable(t)
}

func placeable(u *ref.Rewrite) bool {
	switch u.Kind {
	case ref.This:
		return true
	case ref.Union, ref.Inter:
		for _, c := range u.Ch {
			if c.Kind == ref.This {
				return true
			}
		}
		return len(u.Ch) > 0 && placeable(u.Ch[0])
	case ref.Diff:
		return placeable(u.Ch[0])
	}
	return false
}

// normalise is what a successful round trip may change: direct assignment
// hoisted to first position of its union/intersection, single-child
// unions/intersections collapsed.
func normalise(t *ref.Rewrite) *ref.Rewrite {
	if t.Kind <= ref.TTU {
		return t.Clone()
	}
	n := &ref.Rewrite{Kind: t.Kind}
	for _, c := range t.Ch {
		n.Ch = append(n.Ch, normalise(c))
	}
	if t.Kind == ref.Union || t.Kind == ref.Inter {
		// hoisting is decided on the tree as given (a direct child), as the statement says
		for i, c := range t.Ch {
			if c.Kind == ref.This && i > 0 {
				h := n.Ch[i]
				rest := append(append([]*ref.Rewrite{}, n.Ch[:i]...), n.Ch[i+1:]...)
				n.Ch = append([]*ref.Rewrite{h}, rest...)
				break
			}
			if c.Kind == ref.This {
				break
			}
		}
		if len(n.Ch) == 1 {
			return n.Ch[0]
		}
	}
	return n
}

type c02Case struct {
	Model *ref.Model `json:"model"`
}

var c02RestrWithThis = [][]ref.Restriction{
	{{Type: "user"}},
	{{Type: "user"}, {Type: "user", Wildcard: true}},
	{{Type: "group", Relation: "member", Condition: "c"}, {Type: "user"}, {Type: "user", Condition: "c"}},
}
var c02RestrNoThis = [][]ref.Restriction{
	nil,
	{{Type: "user"}},
	{{Type: "user", Wildcard: true, Condition: "c"}, {Type: "group", Relation: "member"}},
}

func c02Model(t *ref.Rewrite, restr []ref.Restriction) *ref.Model {
	return &ref.Model{Schema: "1.1", Types: []ref.TypeDef{
		{Name: "user"},
		{Name: "group", Rels: []ref.Relation{{Name: "member", Rw: ref.T(), Restr: dUserR}}},
		{Name: "doc", Rels: []ref.Relation{
			{Name: "a", Rw: t, Restr: restr},
			{Name: "b", Rw: ref.T(), Restr: dUserR},
			{Name: "p", Rw: ref.T(), Restr: []ref.Restriction{{Type: "doc"}}},
		}},
	}, Conds: []ref.Condition{{Name: "c", Params: []ref.Param{{Name: "x", Type: "int"}, {Name: "l", Type: "list", Generic: "string"}}, Expr: "x < 100"}}}
}

var dUserR = []ref.Restriction{{Type: "user"}}

func c02One(ctx *core.Ctx, m *ref.Model) {
	cs := c02Case{m}
	var rel *ref.Relation
	for ti := range m.Types {
		for ri := range m.Types[ti].Rels {
			if m.Types[ti].Rels[ri].Name == "a" {
				rel = &m.Types[ti].Rels[ri]
			}
		}
	}
	t := rel.Rw
	want := expressible(t)
	pm := ref.ToProto(m)
	inputDump := ref.Dump(pm, strictDump)
	js, jerr := protojson.Marshal(pm)
	if jerr != nil {
		panic(jerr)
	}
	// expected model after a successful round trip
	nm := *m
	nm.Types = append([]ref.TypeDef{}, m.Types...)
	for ti := range nm.Types {
		nm.Types[ti].Rels = append([]ref.Relation{}, nm.Types[ti].Rels...)
		for ri := range nm.Types[ti].Rels {
			r := &nm.Types[ti].Rels[ri]
			r.Rw = normalise(r.Rw)
			if r.Rw.CountThis() == 0 {
				r.Restr = nil
			}
		}
	}
	expect := ref.Dump(ref.ToProto(&nm), laxDump)

	for _, viaJSON := range []bool{false, true} {
		ctx.Trans(1)
		var dsl string
		var err error
		var pn any
		name := "TransformJSONProtoToDSL"
		if viaJSON {
			name = "TransformJSONStringToDSL"
			var dp *string
			pn = guard(func() { dp, err = transformer.TransformJSONStringToDSL(string(js)) })
			if dp != nil {
				dsl = *dp
			}
		} else {
			dsl, err, pn = printModel(pm)
		}
		if pn != nil {
			ctx.Violation("panic", fmt.Sprintf("%s panicked on %s: %v", name, t, pn), cs, "", fmt.Sprint(pn))
			return
		}
		if (err == nil) != want {
			exp := "error (not expressible)"
			if want {
				exp = "success (expressible)"
			}
			ctx.Violation("expressibility", fmt.Sprintf("%s on rewrite %s: err=%v, reference says %s", name, t, err, exp), cs, exp, fmt.Sprintf("err=%v dsl=%s", err, dsl))
			return
		}
		if err != nil {
			ctx.Flag("rejected")
			if !strings.Contains(err.Error(), "is not supported by the OpenFGA DSL syntax yet") || !strings.Contains(err.Error(), "'a'") {
				ctx.Violation("error-text", fmt.Sprintf("%s on %s: error is not the unsupported-nesting error for relation a: %v", name, t, err), cs, "unsupported nesting error", err.Error())
			}
			ctx.State("rejected")
			continue
		}
		ctx.Flag("accepted")
		got, _, perr, ppn := parseDoc(dsl, false)
		if perr != nil || ppn != nil {
			ctx.Violation("printed-dsl-does-not-parse", fmt.Sprintf("%s printed DSL for %s that the parser rejects: %v %v\n%s", name, t, perr, ppn, dsl), cs, "parses", fmt.Sprint(perr, ppn))
			return
		}
		gd := ref.Dump(got, laxDump)
		if gd != expect {
			ctx.Violation("roundtrip-loses-or-changes", fmt.Sprintf("%s: parse(print(M)) differs from normalise(M) for %s\n%s", name, t, dsl), cs, expect, gd)
			return
		}
		ctx.State(gd)
		// IsRelationAssignable must agree with a [..] in the relation's line
		for _, td := range pm.GetTypeDefinitions() {
			for rn, rw := range td.GetRelations() {
				line := ""
				inType := false
				for _, l := range strings.Split(dsl, "\n") {
					if strings.HasPrefix(l, "type ") {
						inType = l == "type "+td.GetType()
					}
					if inType && strings.HasPrefix(l, "    define "+rn+":") {
						line = l
					}
				}
				has := strings.Contains(line, "[")
				if utils.IsRelationAssignable(rw) != has {
					ctx.Violation("assignable-disagrees", fmt.Sprintf("IsRelationAssignable=%v but line is %q", utils.IsRelationAssignable(rw), line), cs, "", "")
					return
				}
			}
		}
	}
	if after := ref.Dump(pm, strictDump); after != inputDump {
		ctx.Violation("input-modified", "conversion modified its input model", cs, inputDump, after)
	}
	if want {
		ctx.Nontrivial(t.String())
		if t.CountThis() == 1 && t.Kind != ref.This && normalise(t).String() != t.String() {
			ctx.Flag("normalised-differs")
		}
	} else {
		ctx.Nontrivial("!" + t.String())
	}
	if ctx.WantSample() && t.Leaves() >= 3 {
		ctx.Sample(map[string]any{"rewrite": t.String(), "expressible": want, "normalised": normalise(t).String()})
	}
}

func c02Run(ctx *core.Ctx) {
	leaves := []*ref.Rewrite{ref.T(), ref.C("b"), ref.TT("b", "p")}
	o := gen.TreeOpts{MaxLeaves: 3, MaxDepth: 3, MinArity: 1, MaxArity: 3, Leaves: leaves}
	if ctx.Thorough() {
		o.MaxLeaves = 4
	}
	trees := gen.Trees(o)
	if ctx.Shard == 0 {
		ctx.Count("rewrite_trees", len(trees))
	}
	for i, t := range trees {
		if !ctx.Mine(i) {
			continue
		}
		if ctx.Expired() {
			ctx.Cap("wall-clock cap: not all rewrite trees visited")
			break
		}
		lists := c02RestrNoThis
		if t.CountThis() > 0 {
			lists = c02RestrWithThis
		}
		for li, l := range lists {
			if !ctx.Thorough() && t.Leaves() >= 3 && li != i%len(lists) {
				continue // quick: one restriction list per large tree, rotating
			}
			ctx.Eval(1)
			c02One(ctx, c02Model(t, l))
		}
	}
	// modular metadata: module and source-file attribution on types, relations and conditions must not disturb the
	// conversion; what comes back is the model without attribution (DSL of a full model cannot carry it), types in
	// the documented modular order
	for i, tm := range c14Modular(false) {
		if !ctx.Mine(i) {
			continue
		}
		ctx.Eval(1)
		pm := ref.ToProto(tm.M)
		for _, src := range []bool{false, true} {
			ctx.Trans(1)
			dsl, err, pn := printModel(pm, transformer.WithIncludeSourceInformation(src))
			cs := c02Case{tm.M}
			if err != nil || pn != nil {
				ctx.Violation("modular-model-rejected", fmt.Sprintf("JSON->DSL failed on a modular model: %v %v", err, pn), cs, "", "")
				break
			}
			got, _, perr, ppn := parseDoc(dsl, false)
			if perr != nil || ppn != nil {
				ctx.Violation("printed-dsl-does-not-parse", fmt.Sprintf("%v %v\n%s", perr, ppn, dsl), cs, "", "")
				break
			}
			o := ref.DumpOpts{NoSource: true, SortTypes: true}
			if a, b := ref.Dump(pm, o), ref.Dump(got, o); a != b {
				ctx.Violation("roundtrip-loses-or-changes", "modular model: parse(print(M)) differs from M beyond module/file attribution and type order\n"+dsl, cs, a, b)
				break
			}
			ctx.Flag("modular-metadata")
		}
	}
	// size sweeps: one dimension scaled through sizes up to 128, the direct assignment first, second, third, in the middle, last
	for i, tm := range gen.SweepModelsJSON(sweepSizes(ctx)) {
		if !ctx.Mine(1<<26 + i) {
			continue
		}
		if ctx.Expired() {
			ctx.Cap("wall-clock cap in the size sweeps")
			break
		}
		ctx.Eval(1)
		if strings.Contains(tm.Tag, "operands") {
			c02One(ctx, tm.M)
		} else {
			c02Generic(ctx, tm.M)
		}
		ctx.Flag("c02:sweeps")
	}
	// identifier classes and parameter types through the JSON direction as well
	if ctx.Shard == 0 {
		for _, tm := range append(gen.NameModels(), gen.CondModels()...) {
			if tm.M.Module != "" {
				continue
			}
			ctx.Eval(1)
			c02Generic(ctx, tm.M)
		}
	}
}

// c02Generic: a model that is DSL-conform as written must convert and come back unchanged.
func c02Generic(ctx *core.Ctx, m *ref.Model) {
	pm := ref.ToProto(m)
	ctx.Trans(1)
	dsl, err, pn := printModel(pm)
	cs := c02Case{m}
	if err != nil || pn != nil {
		ctx.Violation("conform-model-rejected", fmt.Sprintf("JSON->DSL failed on a DSL-conform model: %v %v", err, pn), cs, "", "")
		return
	}
	got, _, perr, ppn := parseDoc(dsl, false)
	if perr != nil || ppn != nil {
		ctx.Violation("printed-dsl-does-not-parse", fmt.Sprintf("%v %v\n%s", perr, ppn, dsl), cs, "", "")
		return
	}
	if a, b := ref.Dump(pm, laxDump), ref.Dump(got, laxDump); a != b {
		ctx.Violation("roundtrip-loses-or-changes", "parse(print(M)) differs from M\n"+dsl, cs, a, b)
	}
}

func init() {
	core.Register(&core.Check{
		ID: "C02",
		Rule: "all rewrite trees with <= 3 (quick) / <= 4 (thorough) leaves, operator depth <= 3, union/intersection with 1..3 children, exclusion, leaves {direct assignment, b, b from p} " +
			"with the direct assignment in any position and multiplicity, x restriction lists (3 per tree thorough, 1 rotating quick; incl. restrictions on relations without direct assignment), " +
			"each as protobuf and as JSON text; plus the size sweeps (as in C01, and unions/intersections of 4..128 operands with the direct assignment first, second, third, in the middle, next to last and last); plus all identifier-class and parameter-type models and modular models (module / source-file attribution on types, relations, conditions; both option values). Oracle: reference predicate expressible(), reference normalise(). " +
			"states = distinct round-tripped models, non-trivial = distinct rewrite trees (both verdicts)",
		Assume: []string{
			"a relation with a direct assignment has at least one type restriction (an empty [] is not DSL; degenerate protobufs are C08's domain)",
			"operators with zero children and absent base/subtract are out of scope here (C08)",
			"condition expressions containing '//' are not carried (CEL comments are lexed on the hidden channel)",
		},
		Technique: "bounded exhaustive enumeration of rewrite trees against a reference predicate and normal form",
		Run:       c02Run,
		Finish: func(r *core.Result) error {
			for _, f := range []string{"accepted", "rejected", "normalised-differs", "modular-metadata", "c02:sweeps"} {
				if !r.Flags[f] {
					return fmt.Errorf("C02: guard %q never exercised", f)
				}
			}
			return nil
		},
		Replay: func(ctx *core.Ctx, c json.RawMessage) {
			var cs c02Case
			if err := json.Unmarshal(c, &cs); err != nil {
				panic(err)
			}
			isTree := false
			for _, t := range cs.Model.Types {
				for _, r := range t.Rels {
					if r.Name == "a" && t.Name == "doc" {
						isTree = true
					}
				}
			}
			if isTree {
				c02One(ctx, cs.Model)
			} else {
				c02Generic(ctx, cs.Model)
			}
		},
	})
}
