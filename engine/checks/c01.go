package checks

import (
	"encoding/json"
	"fmt"
	"strings"

	"github.com/openfga/language/pkg/go/transformer"

	"verif/core"
	"verif/gen"
	"verif/ref"
)

// C01 — DSL -> model -> DSL -> model is the identity on every accepted DSL document.

type c01Case struct {
	Text string `json:"text"`
	Tag  string `json:"tag,omitempty"`
}

func guard(f func()) (p any) {
	defer func() { p = recover() }()
	f()
	return nil
}

// c01Text runs the round-trip oracle on one DSL text. It returns whether the
// text was accepted as a model.
func c01Text(ctx *core.Ctx, tag, t string) bool {
	cs := c01Case{Text: t, Tag: tag}
	m1, _, err, pn := parseDoc(t, false)
	ctx.Trans(1)
	if pn != nil || err != nil {
		return false // not in the property's domain (C08/C03 look at these)
	}
	if m1.GetSchemaVersion() == "" {
		return false // module file or header-less: not "accepted as a full model"
	}
	viol := func(kind, what, exp, obs string) bool {
		ctx.Violation(kind, what+"\ninput:\n"+t, cs, exp, obs)
		return true
	}
	// in-memory pipeline: the very pointer returned by the parser
	before := ref.Dump(m1, ref.DumpOpts{Strict: true, RawExpr: true})
	d1, err, pn := printModel(m1)
	if pn != nil {
		return viol("print-panic", fmt.Sprintf("TransformJSONProtoToDSL panicked on the parser's own model: %v", pn), "", fmt.Sprint(pn))
	}
	if err != nil {
		return viol("print-fails-in-memory", "TransformJSONProtoToDSL(TransformDSLToProto(t)) failed: "+err.Error(), "DSL text", err.Error())
	}
	if after := ref.Dump(m1, ref.DumpOpts{Strict: true, RawExpr: true}); after != before {
		return viol("print-modified-model", "printing changed the model it was given", before, after)
	}
	m2, _, err, pn := parseDoc(d1, false)
	if pn != nil || err != nil {
		return viol("reparse-fails", fmt.Sprintf("the printed DSL does not parse: %v %v\nprinted:\n%s", err, pn, d1), "accepted", fmt.Sprint(err, pn))
	}
	x1, x2 := ref.Dump(m1, strictDump), ref.Dump(m2, strictDump)
	if x1 != x2 {
		return viol("roundtrip-changes-model", "parse(print(M1)) != M1\nprinted:\n"+d1, x1, x2)
	}
	d2, err, pn := printModel(m2)
	if pn != nil || err != nil {
		return viol("second-print-fails", fmt.Sprintf("%v %v", err, pn), "", "")
	}
	// "rendering and parsing once more changes nothing further - the text is then byte-stable":
	// M2 may differ from M1 in expression whitespace, so d2 may differ from d1; from d2 on nothing may move.
	m3, _, err, pn := parseDoc(d2, false)
	if pn != nil || err != nil {
		return viol("third-parse-fails", fmt.Sprintf("%v %v", err, pn), "", "")
	}
	raw := ref.DumpOpts{Strict: true, RawExpr: true}
	if x2r, x3 := ref.Dump(m2, raw), ref.Dump(m3, raw); x3 != x2r {
		return viol("second-roundtrip-changes-model", "parse(print(M2)) != M2 (byte-exact expressions)", x2r, x3)
	}
	d3, err, pn := printModel(m3)
	if pn != nil || err != nil {
		return viol("third-print-fails", fmt.Sprintf("%v %v", err, pn), "", "")
	}
	if d3 != d2 {
		return viol("not-byte-stable", "print(parse(d2)) differs from d2 = print(parse(print(parse(t))))", d2, d3)
	}
	// JSON string pipeline: the same chain through TransformDSLToJSON / TransformJSONStringToDSL
	step := func(text string) (js string, dsl string, ok bool) {
		var e error
		var dp *string
		if pn := guard(func() { js, e = transformer.TransformDSLToJSON(text) }); pn != nil || e != nil {
			viol("dsl-to-json-fails", fmt.Sprintf("TransformDSLToJSON fails on an accepted text: %v %v\ntext:\n%s", e, pn, text), "", "")
			return "", "", false
		}
		if pn := guard(func() { dp, e = transformer.TransformJSONStringToDSL(js) }); pn != nil || e != nil || dp == nil {
			viol("json-to-dsl-fails", fmt.Sprintf("TransformJSONStringToDSL(TransformDSLToJSON(t)) fails: %v %v\njson: %s", e, pn, js), "", "")
			return "", "", false
		}
		return js, *dp, true
	}
	load := func(js string, o ref.DumpOpts) string {
		pm, e := transformer.LoadJSONStringToProto(js)
		if e != nil {
			return "load error: " + e.Error()
		}
		return ref.Dump(pm, o)
	}
	j1, dj1, ok := step(t)
	if !ok {
		return true
	}
	j2, dj2, ok := step(dj1)
	if !ok {
		return true
	}
	if a, b := load(j1, strictDump), load(j2, strictDump); a != b {
		return viol("json-roundtrip-changes-model", "JSON(parse(print(JSON(parse(t))))) differs from JSON(parse(t))", a, b)
	}
	j3, dj3, ok := step(dj2)
	if !ok {
		return true
	}
	if a, b := load(j2, raw), load(j3, raw); a != b {
		return viol("json-second-roundtrip-changes-model", "the JSON pipeline keeps changing the model after the first round trip", a, b)
	}
	if dj3 != dj2 {
		return viol("json-not-byte-stable", "JSON pipeline: the DSL text is not byte-stable after the first round trip", dj2, dj3)
	}
	ctx.State(x1)
	ctx.Nontrivial(t)
	return true
}

// c01Corpus: every DSL text of the repository's shared test-data corpus that is accepted as a full model.
func c01Corpus(ctx *core.Ctx) {
	for i, d := range gen.Corpus(RepoRoot()) {
		if !ctx.Mine(i) || strings.Contains(d.Text, "#") && strings.Contains(d.Text, "condition") {
			continue // '#' next to condition bodies: outside the property's domain unless proven to be a comment
		}
		if c01Text(ctx, "corpus:"+d.Name, d.Text) {
			ctx.Count("accepted_corpus_documents", 1)
			ctx.Flag("accepted-corpus-document")
		}
	}
}

// sweepSizes: the sizes of the size sweeps for this tier.
func sweepSizes(ctx *core.Ctx) []int {
	if ctx.Thorough() {
		return gen.SweepSizes
	}
	return gen.SweepSizesSmall
}

// c01Sweeps: the size sweeps (one dimension of a model scaled through sizes up to 128, long names, long lines) under the
// canonical layout and every uniform style.
func c01Sweeps(ctx *core.Ctx) {
	for i, tm := range gen.SweepModelsDSL(sweepSizes(ctx)) {
		if !ctx.Mine(1<<26 + i) {
			continue
		}
		if ctx.Expired() {
			ctx.Cap("wall-clock cap in the size sweeps")
			return
		}
		ctx.Eval(1)
		forLayouts(ctx, tm.Tag, tm.M, 0, 0, func(r *ref.Rendered, lc *layoutCase) {
			if c01Text(ctx, tm.Tag, r.Text) {
				ctx.Flag("c01:sweeps")
			} else {
				ctx.Count("rendered_texts_not_accepted", 1)
			}
		})
	}
}

func c01Run(ctx *core.Ctx) {
	defer c01Lexemes(ctx)
	defer c01Corpus(ctx)
	c01Sweeps(ctx)
	models := gen.DSLModels(ctx.Thorough())
	for i, tm := range models {
		if !ctx.Mine(i) || tm.M.Module != "" {
			continue
		}
		if ctx.Expired() {
			ctx.Cap("wall-clock cap: not all models rendered")
			break
		}
		ctx.Eval(1)
		dev, sdev := 1, 0
		if ctx.Thorough() {
			sdev = 1
		}
		forLayouts(ctx, tm.Tag, tm.M, dev, sdev, func(r *ref.Rendered, lc *layoutCase) {
			if c01Text(ctx, tm.Tag, r.Text) {
				ctx.Flag("accepted")
				if tm.M.Conds != nil {
					ctx.Flag("with-conditions")
				}
				if ctx.WantSample() && len(lc.Choices) > 2 {
					ctx.Sample(map[string]any{"model": tm.Tag, "text": r.Text})
				}
			} else {
				// the renderer only writes grammatical texts; C03 reports rejections
				ctx.Count("rendered_texts_not_accepted", 1)
			}
		})
	}
}

// c01Lexemes: every text of the lexeme enumeration (C08/C16's alphabet and contexts) that happens to be accepted as a
// full model goes through the same oracle: accepted byte strings that the renderer would never write.
func c01Lexemes(ctx *core.Ctx) {
	k := 3
	base := 1 << 22
	for ci, cx := range gen.DSLContexts {
		if !strings.HasPrefix(cx, "model") {
			continue
		}
		for n := 0; n <= k; n++ {
			alpha := gen.DSLLexemes
			if n == 3 && !ctx.Thorough() {
				alpha = gen.DSLLexemesSmall
			}
			if ctx.Expired() {
				ctx.Cap(fmt.Sprintf("wall-clock cap in the lexeme enumeration (context %d, length %d)", ci, n))
				return
			}
			gen.LexemeStrings(alpha, n, func(i int, s string) {
				if !ctx.Mine(base + i) {
					return
				}
				t := cx + s
				if strings.Contains(t, "#") && strings.Contains(t, "{") {
					return // '#' inside a condition expression is outside the property's domain
				}
				if c01Text(ctx, "lexemes", t) {
					ctx.Flag("accepted-lexeme-string")
					ctx.Count("accepted_lexeme_strings", 1)
				}
			})
			base += gen.Pow(len(alpha), n)
		}
	}
}

func init() {
	core.Register(&core.Check{
		ID: "C01",
		Rule: "size sweeps (one dimension of a model - operands of a union/intersection, relations of a type, types, conditions, parameters of a condition cycling through all 24 types, entries of a restriction list - scaled through 11 (quick) / 26 (thorough) sizes between 4 and 128 around the thresholds sorting and buffering code commonly has, contents in scrambled order; names of 64..1100 characters; one-line condition expressions of 300..4200 characters; declarations before and after the large part) under the canonical layout and every uniform style; every rendering (canonical + every single layout deviation + every uniform style; thorough: single deviations on top of styles, shapes up to 4 leaves) of every generated full model " +
			"(all DSL-conform rewrite shapes, identifier classes in every position incl. keywords, restriction lists, all parameter types, expression alphabet); " +
			"plus every string of <= 3 lexemes over the 38-lexeme DSL alphabet appended to the 7 valid model prefixes that is accepted as a model, plus every accepted DSL text of the repository's shared test-data corpus; " +
			"each accepted text goes through parse/print/parse/print/parse in memory (same pointer) and through the JSON-string API. " +
			"states = distinct models, non-trivial = distinct accepted texts",
		Assume: []string{
			"domain = texts produced by the reference renderer from the model families plus the accepted strings of the bounded lexeme enumeration; longer arbitrary byte strings are not enumerated",
			"model equality = equality of the canonical strict dump (order of type definitions and restrictions significant, absent vs empty metadata distinguished, expressions compared after trimming)",
		},
		Technique: "bounded exhaustive enumeration of models x layouts; differential oracle between pipeline stages",
		Run:       c01Run,
		Finish: func(r *core.Result) error {
			if !r.Flags["c01:sweeps"] {
				return fmt.Errorf("C01: size sweeps never exercised")
			}
			if !r.Flags["accepted"] || !r.Flags["with-conditions"] {
				return fmt.Errorf("C01: no accepted text / no conditions exercised")
			}
			return layoutGuards(r)
		},
		Replay: func(ctx *core.Ctx, c json.RawMessage) {
			var cs c01Case
			json.Unmarshal(c, &cs)
			c01Text(ctx, cs.Tag, cs.Text)
		},
	})
}
