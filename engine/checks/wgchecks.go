package checks

import (
	"encoding/json"
	"fmt"
	"github.com/openfga/language/pkg/go/transformer"
	"sort"
	"strings"

	openfgav1 "github.com/openfga/api/proto/openfga/v1"
	"google.golang.org/protobuf/proto"

	"github.com/openfga/language/pkg/go/graph"

	"verif/core"
	"verif/gen"
	"verif/ref"
	"verif/rt"
)

// ---- model sets -----------------------------------------------------------------

// wgModels calls f for every model of the graph alphabet that belongs to this worker.
func wgModels(ctx *core.Ctx, f func(i int, tm gen.Tagged) bool) {
	// special families first (they carry the vacuity guards), then the two-relation space simplest first
	extra := gen.TTUDefectModels()
	extra = append(extra, gen.InterlockModels()...)
	extra = append(extra, gen.SameTargetModels()...)
	extra = append(extra, gen.TuplesetListModels()...)
	extra = append(extra, gen.SecondRouteModels()...)
	// size sweeps: one dimension of the graph scaled (operands, relations, types on one tuple cycle, restrictions, chains of
	// n hops, parent types, public types)
	gsizes := []int{13, 33, 65}
	if ctx.Thorough() {
		gsizes = gen.SweepSizesSmall
	}
	extra = append(extra, gen.SweepModelsGraph(gsizes)...)
	nSpecial := len(extra)
	// two tuple-to-usersets under one operator (round 9): ordinary budgets, not thinned
	extra = append(extra, gen.TTUPairModels()...)
	// the cycle-rich families again under names a string operation could trip over (round 10): a thinned selection under the
	// ordinary budgets (they are copies of models the special budgets have seen under their plain names)
	{
		var pick []gen.Tagged
		for i, tm := range gen.InterlockModels() {
			if i%4 == 1 || ctx.Thorough() {
				pick = append(pick, tm)
			}
		}
		for i, tm := range gen.SecondRouteModels() {
			if i%32 == 5 || (ctx.Thorough() && i%4 == 1) {
				pick = append(pick, tm)
			}
		}
		for i, tm := range gen.SameTargetModels() {
			if i%8 == 3 || ctx.Thorough() {
				pick = append(pick, tm)
			}
		}
		extra = append(extra, gen.Renamed(pick)...)
	}
	extra = append(extra, gen.ThreeRelModels(ctx.Thorough())...)
	extra = append(extra, gen.NestedModels()...)
	for j, tm := range extra {
		if !ctx.Mine(j) {
			continue
		}
		if !ctx.Thorough() && j >= nSpecial && j%4 != 0 && !strings.HasPrefix(tm.Tag, "renamed(") && !strings.HasPrefix(tm.Tag, "ttu-pair:") {
			continue // quick: every 4th of the three-relation and nested families
		}
		if ctx.Expired() {
			ctx.Cap("wall-clock cap inside the special / three-relation / nested families")
			return
		}
		wgSpecial = j < nSpecial
		wgLight = strings.HasPrefix(tm.Tag, "renamed(")
		cont := f(j, tm)
		wgSpecial, wgLight = false, false
		if !cont {
			return
		}
	}
	base := len(extra)
	spaces := []*gen.GraphSpace{gen.NewGraphSpace(false)}
	if ctx.Thorough() {
		// thorough: the quick alphabet under the deeper budgets first, then the full alphabet as far as the cap allows
		spaces = append(spaces, gen.NewGraphSpace(true))
	}
	for si, sp := range spaces {
		n := sp.Size()
		for i := 0; i < n; i++ {
			if !ctx.Mine(base + i) {
				continue
			}
			if ctx.Expired() {
				ctx.Cap(fmt.Sprintf("wall-clock cap: two-relation models of alphabet %d: %d of %d visited", si, i, n))
				return
			}
			if !f(base+i, sp.At(i)) {
				return
			}
		}
		base += n
	}
}

const wgRule = "graph-model alphabet: types user, group (terminal), folder {a: [user], b: [group, user:*]}, doc {a, b, p} with a and b ranging over every leaf " +
	"(direct assignment with 3 (quick) / 11 (thorough) restriction lists incl. wildcards, conditions, usersets of self/other/folder; computed self/other; TTU self/other over p) " +
	"and every union / intersection / exclusion of two leaves, x 3 tupleset variants p in {[doc],[folder],[doc,folder]}; plus the TTU-defect family, the interlocking-cycles family (direct assignments mixing a terminal type, the relation's own userset and its neighbours' usersets in every order, with and without TTUs; two and three relations), the same-target family (one operator reaching a relation by a rewrite or TTU edge and by a direct userset edge, in both operand orders, with conditions), the tupleset-list family (tupleset restricted to every list of 1-3 entries with repetition over {doc, doc with k, folder, folder with k, a type without the relation}; TTU alone, under union / intersection, and on a cycle), the second-route family (three relations, each a union of a direct assignment to user and the others' usersets with computed and TTU references to the others: 512 models), size sweeps (operands, relations, types on one tuple cycle, restrictions, userset / TTU / computed chains of n hops, parent types of a tupleset, public types on one relation; n = 13, 33, 65 quick / 11 sizes up to 100 thorough), three-relation models rich in cycles and nested / three-operand rewrites " +
	"(quick: every 4th). Each model is built under every map-iteration schedule within the budgets: depth-first start orders fully permuted for graphs with <= 5 (quick) / <= 6 (thorough) relation and operator nodes " +
	"(type and wildcard nodes pinned last there), every single root deviation (quick) / every pair (thorough) otherwise; every single inner-map deviation; the special families also one root deviation together with one inner-map deviation; thorough: that for every model, and two inner deviations. "

var wgAssume = []string{
	"map iteration order is owned by source rewriting of every `range <map>` in pkg/go/graph (13 sites of the weighted graph); every permutation is a behaviour the Go specification allows",
	"in the fully permuted budget, iterations of the start loop for type and wildcard nodes are pinned last (they return before touching state); the bounded budgets do not pin",
	"operator nodes are matched to rewrite positions structurally (ordered traversal), never by their random ULID labels",
}

// wgLight: the model is a renamed copy of one explored under its plain names; it is built under the default schedule and from
// every first start node only.
var wgLight bool

// pinTypes pins type and wildcard nodes at the root site.
func pinTypes(rg *ref.WG) {
	inert := map[string]bool{}
	for _, nd := range rg.Order {
		if nd.Kind == ref.NType || nd.Kind == ref.NWild {
			inert[nd.Label] = true
		}
	}
	rt.PinLast(wgRootSite, func(k any) bool { s, _ := k.(string); return inert[s] })
}

// wgExplorePinned runs the budgets; the fully permuted one with pinning.
func wgExploreAll(ctx *core.Ctx, m *ref.Model, rg *ref.WG, visit func(o *wgObs, choices []int, pinned bool) bool) bool {
	return wgExploreAllTagged(ctx, "", m, rg, visit)
}

func wgExploreAllTagged(ctx *core.Ctx, tag string, m *ref.Model, rg *ref.WG, visit func(o *wgObs, choices []int, pinned bool) bool) bool {
	pm := ref.ToProto(m)
	nRoots := wgRoots(rg)
	ok := true
	if nRoots > 12 || len(rg.Order) > 30 || wgLight {
		// a large graph (the size sweeps): the default schedule and every FIRST start node of the weight assignment (the first
		// depth-first search covers what it reaches; later starts and the inner maps follow the default order)
		var o *wgObs
		pts := rt.Run(nil, nil, func() { o = wgBuild(proto.Clone(pm).(*openfgav1.AuthorizationModel)) })
		ctx.Trans(1)
		if len(pts) > 0 {
			ctx.Flag("map-sites-reached")
		}
		if !visit(o, nil, false) {
			return false
		}
		idx := -1
		for i, p := range pts {
			if p.Site == wgRootSite {
				idx = i
				break
			}
		}
		if idx < 0 {
			return true
		}
		prefix := make([]int, idx)
		for i := range prefix {
			prefix[i] = pts[i].Choice
		}
		for alt := 1; alt < pts[idx].N; alt++ {
			if ctx.Expired() {
				ctx.Cap("wall-clock cap while enumerating the start nodes of a large graph")
				return true
			}
			ch := append(append([]int{}, prefix...), alt)
			rt.Run(ch, nil, func() { o = wgBuild(proto.Clone(pm).(*openfgav1.AuthorizationModel)) })
			ctx.Trans(1)
			if !visit(o, ch, false) {
				return false
			}
		}
		ctx.Flag("wg:large-graph-start-nodes")
		return true
	}
	for bi, b := range wgBudgets(nRoots, ctx.Thorough()) {
		pin := b["roots"] == -1
		if pin {
			pinTypes(rg)
		}
		var o *wgObs
		st := rt.Explore(rt.Config{Class: wgClass, Budget: b, MaxExec: 6000, Stop: ctx.Expired},
			func() { o = wgBuild(proto.Clone(pm).(*openfgav1.AuthorizationModel)) },
			func(pts []rt.Point) bool {
				ctx.Trans(1)
				if len(pts) > 0 {
					ctx.Flag("map-sites-reached")
				}
				ok = visit(o, rt.Choices(pts), pin)
				return ok
			})
		rt.PinLast(wgRootSite, nil)
		if !ok {
			return false
		}
		if !st.Complete {
			ctx.Cap(fmt.Sprintf("a schedule exploration hit its execution cap (6000) or the wall-clock cap (budget %v, %d relation and operator nodes)", b, nRoots))
		}
		ctx.Count(fmt.Sprintf("executions_budget_%d", bi), st.Executions)
	}
	return true
}

// pinnedChoices marks a schedule recorded under pinning, for replay.
func wgCaseOf(tm gen.Tagged, ch []int, pinned bool) *wgCase {
	c := &wgCase{Tag: tm.Tag, Model: tm.M, Choices: ch}
	if pinned {
		c.Extra = "pinned"
	}
	return c
}

func wgReplay(cs *wgCase) (*ref.WG, *wgObs) {
	rg := ref.BuildWG(cs.Model)
	if cs.Extra == "pinned" {
		pinTypes(rg)
		defer rt.PinLast(wgRootSite, nil)
	}
	pm := ref.ToProto(cs.Model)
	var o *wgObs
	b := graph.NewWeightedAuthorizationModelGraphBuilder()
	if cs.Earlier != nil {
		rt.Run(nil, nil, func() { wgBuildOn(b, ref.ToProto(cs.Earlier)) })
	}
	rt.Run(cs.Choices, nil, func() { o = wgBuildOn(b, pm) })
	return rg, o
}

// dslModel: the model can be written as DSL as it stands (every direct assignment first or alone, no operator with fewer
// than two operands); the graph alphabets also hold operand orders that only JSON or protobuf can express.
func dslModel(m *ref.Model) bool {
	var ok func(r *ref.Rewrite, first bool) bool
	ok = func(r *ref.Rewrite, first bool) bool {
		switch r.Kind {
		case ref.This:
			return first
		case ref.Union, ref.Inter, ref.Diff:
			if len(r.Ch) < 2 {
				return false
			}
			for i, c := range r.Ch {
				if !ok(c, first && i == 0) {
					return false
				}
			}
		}
		return true
	}
	for _, t := range m.Types {
		for _, r := range t.Rels {
			if r.Rw == nil || !ok(r.Rw, true) {
				return false
			}
		}
	}
	return true
}

// ---- C05 ------------------------------------------------------------------------

// f10Verdict tells whether the observed verdict is the one the defect model of
// known finding F10 (edge-wise operands + restart on empty) predicts while the
// property's reference predicts the other one.
func c05One(ctx *core.Ctx, tm gen.Tagged, rg *ref.WG, an, anEdge *ref.Analysis, o *wgObs, ch []int, pinned bool, earlier ...*ref.Model) bool {
	cs := wgCaseOf(tm, ch, pinned)
	if len(earlier) > 0 {
		cs.Earlier = earlier[0]
	}
	if o.verdict == "panic" {
		ctx.Violation("build-panics", fmt.Sprintf("%s: Build panicked: %v", tm.Tag, o.panic), cs, "", fmt.Sprint(o.panic))
		return false
	}
	accepted := o.verdict == "accepted"
	if !accepted && o.verdict == "rejected:" {
		ctx.Violation("error-not-a-sentinel", fmt.Sprintf("%s: error wraps none of ErrModelCycle, ErrTupleCycle, ErrInvalidModel: %v", tm.Tag, o.err), cs, "one of the three sentinels", o.err.Error())
		return false
	}
	if accepted == an.WellFounded {
		if accepted {
			ctx.Flag("c05:accepted")
		} else {
			ctx.Flag("c05:rejected")
			for _, r := range an.Reasons {
				ctx.Flag("c05:clause:" + r[:1])
			}
		}
		return true
	}
	// verdict differs from the reference: is it exactly known finding F10?
	if core.IsKnown("F10-edgewise-operands") && accepted == anEdge.WellFounded && hasMultiEdgeOperand(rg) {
		ctx.Known("F10-edgewise-operands", fmt.Sprintf("%s: verdict %s, reference (operand-wise) says well-founded=%v, edge-wise defect model says %v", tm.Tag, o.verdict, an.WellFounded, anEdge.WellFounded))
		return true
	}
	exp := "accepted (well-founded)"
	if !an.WellFounded {
		exp = "rejected: " + strings.Join(an.Reasons, "; ")
	}
	kind := "well-founded-model-rejected"
	if accepted {
		kind = "ill-founded-model-accepted"
	}
	obs := o.verdict
	if o.err != nil {
		obs += " (" + o.err.Error() + ")"
	}
	ctx.Violation(kind, fmt.Sprintf("%s [schedule %v]: builder verdict %s, reference: %s", tm.Tag, ch, obs, exp), cs, exp, obs)
	return false
}

// hasMultiEdgeOperand: some intersection/exclusion operand is drawn with more than one edge
// or an intersection has three or more operands (the situations F10 is about).
func hasMultiEdgeOperand(rg *ref.WG) bool {
	for _, nd := range rg.Order {
		if nd.Kind != ref.NOp || nd.Op == ref.Union {
			continue
		}
		if nd.Op == ref.Inter && len(nd.Edges) >= 3 {
			return true
		}
		for _, g := range nd.Groups {
			if len(g) != 1 {
				return true
			}
		}
		if len(nd.Edges) != len(nd.Groups) {
			return true
		}
	}
	return false
}

func c05Run(ctx *core.Ctx) {
	defer c05BuilderReuse(ctx)
	wgModels(ctx, func(i int, tm gen.Tagged) bool {
		ctx.Eval(1)
		rg := ref.BuildWG(tm.M)
		anEdge := rg.Analyse(ref.EdgeWise)
		// copy the verdict of the defect model before the graph is re-annotated
		ae := *anEdge
		an := rg.Analyse(ref.OperandWise)
		ok := wgExploreAll(ctx, tm.M, rg, func(o *wgObs, ch []int, pinned bool) bool {
			ctx.State(o.verdict)
			return c05One(ctx, tm, rg, an, &ae, o, ch, pinned)
		})
		if ok {
			// the same model with sparse metadata (no entry for relations without direct assignment): same verdict
			if sp, changed := sparseMetadata(ref.ToProto(tm.M)); changed {
				ctx.Trans(1)
				stm := gen.Tagged{Tag: tm.Tag + " (metadata only for relations with a direct assignment)", M: tm.M}
				if !c05One(ctx, stm, rg, an, &ae, wgBuild(sp), nil, false) {
					return true
				}
				ctx.Flag("c05:sparse-metadata")
			}
			// the same model as the DSL parser hands it over (rendered, parsed, built in memory): the parser's protobuf differs from
			// a hand-built one in representation - empty but present lists and maps, metadata entries for every relation -, which
			// must change nothing
			if dslModel(tm.M) {
				if dm, err := transformer.TransformDSLToProto(ref.Render(tm.M, nil).Text); err == nil {
					var o *wgObs
					rt.Run(nil, nil, func() { o = wgBuild(dm) })
					ctx.Trans(1)
					tmd := gen.Tagged{Tag: tm.Tag + " [as parsed from its DSL text]", M: tm.M}
					if !c05One(ctx, tmd, rg, an, &ae, o, nil, false) {
						return true
					}
					ctx.Flag("c05:parsed-from-dsl")
				}
			}
		}
		if ok {
			ctx.Nontrivial(tm.Tag)
			if ctx.WantSample() && !an.WellFounded && i%5 == 0 {
				ctx.Sample(map[string]any{"model": tm.Tag, "well_founded": false, "reasons": an.Reasons})
			}
		}
		return true
	})
}

// ---- C06 ------------------------------------------------------------------------

// c06BuilderReuse: one builder value used for several models in a row ("repeated invocations in one process"):
// the result for the later model must be what a fresh builder gives. All ordered pairs over a model subset that
// mixes two- and three-relation models, TTU defects and cyclic models.
func reusePool() []gen.Tagged {
	var pool []gen.Tagged
	sp := gen.NewGraphSpace(false)
	for i := 0; i < sp.Size(); i += sp.Size()/40 + 1 {
		pool = append(pool, sp.At(i))
	}
	three := gen.ThreeRelModels(false)
	for i := 0; i < len(three); i += len(three)/25 + 1 {
		pool = append(pool, three[i])
	}
	td := gen.TTUDefectModels()
	for i := 0; i < len(td); i += 5 {
		pool = append(pool, td[i])
	}
	il := gen.InterlockModels()
	for i := 0; i < len(il); i += len(il)/10 + 1 {
		pool = append(pool, il[i])
	}
	tl := gen.TuplesetListModels()
	for i := 0; i < len(tl); i += len(tl)/8 + 1 {
		pool = append(pool, tl[i])
	}
	// twins that disagree on whether a parent type has the computed relation: a rejected draft and its corrected version
	// (a builder that remembers the draft's answer - positive or negative - gives the twin a wrong verdict)
	for _, tm := range tl {
		if strings.HasSuffix(tm.Tag, "p: [doc bare]") || strings.HasSuffix(tm.Tag, "p: [bare folder]") {
			pool = append(pool, tm)
			fixed := cloneRefModel(tm.M)
			for ti := range fixed.Types {
				if fixed.Types[ti].Name == "bare" {
					fixed.Types[ti].Rels = append(fixed.Types[ti].Rels, ref.Relation{Name: "b", Rw: ref.T(), Restr: []ref.Restriction{{Type: "group"}}})
				}
			}
			pool = append(pool, gen.Tagged{Tag: tm.Tag + " (corrected: bare has b)", M: fixed})
		}
	}
	return pool
}

// forReusePairs builds every ordered pair (earlier, later) of the pool on one builder value and hands the observation of
// the later build to f.
func forReusePairs(ctx *core.Ctx, pool []gen.Tagged, f func(i, j int, o *wgObs) bool) {
	k := 0
	for i := range pool {
		for j := range pool {
			k++
			if !ctx.Mine(k) {
				continue
			}
			ctx.Trans(1)
			b := graph.NewWeightedAuthorizationModelGraphBuilder()
			wgBuildOn(b, ref.ToProto(pool[i].M))
			if !f(i, j, wgBuildOn(b, ref.ToProto(pool[j].M))) {
				return
			}
		}
	}
}

func c06BuilderReuse(ctx *core.Ctx) {
	pool := reusePool()
	type fresh struct {
		rg   *ref.WG
		dump string
	}
	fr := make([]fresh, len(pool))
	for i, tm := range pool {
		rg := ref.BuildWG(tm.M)
		fr[i] = fresh{rg, wgDump(rg, wgBuild(ref.ToProto(tm.M)))}
	}
	forReusePairs(ctx, pool, func(i, j int, o *wgObs) bool {
		d := wgDump(fr[j].rg, o)
		if d != fr[j].dump {
			c := &wgCase{Tag: pool[j].Tag, Model: pool[j].M, Extra: "after building on the same builder: " + pool[i].Tag, Earlier: pool[i].M}
			ctx.Violation("result-depends-on-earlier-build", fmt.Sprintf("a builder that has built [%s] before gives another result for [%s] than a fresh builder", pool[i].Tag, pool[j].Tag), c, fr[j].dump, d)
			return false
		}
		ctx.Flag("c06:builder-reuse")
		return true
	})
}

// c05BuilderReuse: the verdict on a used builder value is the reference's verdict as well.
func c05BuilderReuse(ctx *core.Ctx) {
	pool := reusePool()
	type refv struct {
		rg     *ref.WG
		an, ae ref.Analysis
	}
	rv := make([]refv, len(pool))
	for i, tm := range pool {
		rg := ref.BuildWG(tm.M)
		ae := *rg.Analyse(ref.EdgeWise)
		an := *rg.Analyse(ref.OperandWise)
		rv[i] = refv{rg, an, ae}
	}
	forReusePairs(ctx, pool, func(i, j int, o *wgObs) bool {
		tm := gen.Tagged{Tag: pool[j].Tag + " (on a builder that has built [" + pool[i].Tag + "] before)", M: pool[j].M}
		ctx.Flag("c05:builder-reuse")
		return c05One(ctx, tm, rv[j].rg, &rv[j].an, &rv[j].ae, o, nil, false, pool[i].M)
	})
}

func c06Run(ctx *core.Ctx) {
	defer c06BuilderReuse(ctx)
	wgModels(ctx, func(i int, tm gen.Tagged) bool {
		ctx.Eval(1)
		rg := ref.BuildWG(tm.M)
		var first string
		var firstCh []int
		have := false
		ok := wgExploreAll(ctx, tm.M, rg, func(o *wgObs, ch []int, pinned bool) bool {
			if o.verdict == "panic" {
				ctx.Violation("build-panics", fmt.Sprintf("%s: Build panicked: %v", tm.Tag, o.panic), wgCaseOf(tm, ch, pinned), "", fmt.Sprint(o.panic))
				return false
			}
			d := wgDump(rg, o)
			ctx.State(d)
			if !have {
				first, firstCh, have = d, ch, true
				return true
			}
			if d != first {
				kind := "weights-depend-on-map-order"
				if strings.SplitN(d, "\n", 2)[0] != strings.SplitN(first, "\n", 2)[0] {
					kind = "verdict-depends-on-map-order"
				}
				ctx.Violation(kind, fmt.Sprintf("%s: schedules %v and %v build different results", tm.Tag, firstCh, ch), wgCaseOf(tm, ch, pinned), first, d)
				return false
			}
			return true
		})
		if !ok {
			return true
		}
		if strings.HasPrefix(first, "accepted") {
			ctx.Flag("c06:accepted")
		} else {
			ctx.Flag("c06:rejected")
		}
		// permutations of the type-definition list
		pm := ref.ToProto(tm.M)
		for _, perm := range typePerms(len(tm.M.Types)) {
			ctx.Trans(1)
			o := wgBuild(permuteTypes(pm, perm))
			if d := wgDump(rg, o); d != first {
				c := wgCaseOf(tm, nil, false)
				c.Extra = fmt.Sprintf("typeperm:%v", perm)
				ctx.Violation("result-depends-on-type-order", fmt.Sprintf("%s: type definition order %v changes the result", tm.Tag, perm), c, first, d)
				return true
			}
		}
		ctx.Flag("c06:type-permutations")
		// sparse metadata: no entry for relations without direct assignment - same result
		if sp, changed := sparseMetadata(pm); changed {
			ctx.Trans(1)
			if d := wgDump(rg, wgBuild(sp)); d != first {
				c := wgCaseOf(tm, nil, false)
				c.Extra = "sparse-metadata"
				ctx.Violation("result-depends-on-optional-metadata", fmt.Sprintf("%s: dropping the (optional) metadata entries of relations without direct assignment changes the result", tm.Tag), c, first, d)
				return true
			}
			ctx.Flag("c06:sparse-metadata")
		}
		// permutations of commutative operands: relation weights must not change
		if strings.HasPrefix(first, "accepted") {
			base := relWeights(rg, wgBuild(pm))
			for _, vm := range commutedVariants(tm.M) {
				ctx.Trans(1)
				vrg := ref.BuildWG(vm)
				vo := wgBuild(ref.ToProto(vm))
				w := relWeights(vrg, vo)
				if vo.verdict != "accepted" || w != base {
					// exactly known finding F10? both the model and its variant must behave as the edge-wise defect model predicts
					if core.IsKnown("F10-edgewise-operands") && (hasMultiEdgeOperand(rg) || hasMultiEdgeOperand(vrg)) &&
						base == refRelWeights(rg, ref.EdgeWise) && w == refRelWeights(vrg, ref.EdgeWise) {
						ctx.Known("F10-edgewise-operands", fmt.Sprintf("%s: operand order changes the result exactly as the edge-wise defect model predicts", tm.Tag))
						continue
					}
					c := &wgCase{Tag: tm.Tag, Model: vm, Extra: "commuted"}
					if vo.verdict != "accepted" {
						ctx.Violation("verdict-depends-on-operand-order", fmt.Sprintf("%s: reordering the operands of a union/intersection turns the verdict into %s", tm.Tag, vo.verdict), c, "accepted", vo.verdict)
					} else {
						ctx.Violation("weights-depend-on-operand-order", fmt.Sprintf("%s: reordering the operands of a union/intersection changes relation weights", tm.Tag), c, base, w)
					}
					return true
				}
				ctx.Flag("c06:commuted")
			}
		}
		ctx.Nontrivial(tm.Tag)
		if ctx.WantSample() && i%11 == 0 {
			ctx.Sample(map[string]any{"model": tm.Tag, "result": strings.SplitN(first, "\n", 2)[0]})
		}
		return true
	})
}

// typePerms: every permutation of up to 5 types; for longer lists the identity, the reversal, a rotation and a scrambled order.
func typePerms(n int) [][]int {
	if n <= 5 {
		return perms(n)
	}
	id := identity(n)
	rev, rot, scr := identity(n), identity(n), identity(n)
	for i := range id {
		rev[i] = n - 1 - i
		rot[i] = (i + 1) % n
		scr[i] = (i*7 + n/3) % n
	}
	out := [][]int{id, rev, rot}
	seen := map[int]bool{}
	okp := true
	for _, v := range scr {
		if seen[v] {
			okp = false
		}
		seen[v] = true
	}
	if okp {
		out = append(out, scr)
	}
	return out
}

// relWeights lists the weights of all relation nodes.
func relWeights(rg *ref.WG, o *wgObs) string {
	if o.g == nil {
		if o.verdict == "panic" {
			return o.verdict
		}
		return "rejected"
	}
	var ids []string
	for id, n := range o.g.GetNodes() {
		if int(n.GetNodeType()) == ref.NRel {
			ids = append(ids, id)
		}
	}
	sort.Strings(ids)
	var sb strings.Builder
	for _, id := range ids {
		n, _ := o.g.GetNodeByID(id)
		fmt.Fprintf(&sb, "%s %s\n", id, ref.FmtWeights(n.GetWeights()))
	}
	return sb.String()
}

// refRelWeights is what relWeights must show according to the reference under the given semantics.
func refRelWeights(rg *ref.WG, mode ref.Mode) string {
	an := rg.Analyse(mode)
	if !an.WellFounded {
		return "rejected"
	}
	var ids []string
	for _, nd := range rg.Order {
		if nd.Kind == ref.NRel {
			ids = append(ids, nd.ID)
		}
	}
	sort.Strings(ids)
	var sb strings.Builder
	for _, id := range ids {
		fmt.Fprintf(&sb, "%s %s\n", id, ref.FmtWeights(rg.Nodes[id].W))
	}
	return sb.String()
}

// commutedVariants returns copies of m in which the operands of one union or
// intersection are permuted (every permutation of every such node, up to 3 operands).
func commutedVariants(m *ref.Model) []*ref.Model {
	var out []*ref.Model
	for ti := range m.Types {
		for ri := range m.Types[ti].Rels {
			var nodes [][]int
			var rec func(r *ref.Rewrite, p []int)
			rec = func(r *ref.Rewrite, p []int) {
				if (r.Kind == ref.Union || r.Kind == ref.Inter) && len(r.Ch) >= 2 && len(r.Ch) <= 3 {
					nodes = append(nodes, append([]int{}, p...))
				}
				for i, c := range r.Ch {
					rec(c, append(p, i))
				}
			}
			rec(m.Types[ti].Rels[ri].Rw, nil)
			for _, p := range nodes {
				n0 := m.Types[ti].Rels[ri].Rw
				for _, i := range p {
					n0 = n0.Ch[i]
				}
				for _, perm := range perms(len(n0.Ch))[1:] {
					c := cloneRefModel(m)
					n := c.Types[ti].Rels[ri].Rw
					for _, i := range p {
						n = n.Ch[i]
					}
					old := append([]*ref.Rewrite{}, n.Ch...)
					for k, pi := range perm {
						n.Ch[k] = old[pi]
					}
					out = append(out, c)
				}
			}
		}
	}
	return out
}

func cloneRefModel(m *ref.Model) *ref.Model {
	c := *m
	c.Types = make([]ref.TypeDef, len(m.Types))
	for i, t := range m.Types {
		c.Types[i] = t
		c.Types[i].Rels = make([]ref.Relation, len(t.Rels))
		for j, r := range t.Rels {
			c.Types[i].Rels[j] = r
			c.Types[i].Rels[j].Rw = r.Rw.Clone()
		}
	}
	return &c
}

func init() {
	core.Register(&core.Check{
		ID:        "C05",
		Rule:      wgRule + "Oracle: reference well-foundedness (rewrite-only cycle, intersection/exclusion on a cycle, TTU conditions, empty intersection, relation without terminal type) on every schedule; and for every ordered pair over ~100 mixed models built in a row on ONE builder value, the verdict on the later model. states = distinct verdicts, non-trivial = distinct models",
		Assume:    wgAssume,
		Technique: "exhaustive exploration of map-iteration schedules (DFS start orders and inner maps) x bounded exhaustive model enumeration against a reference well-foundedness predicate",
		Run:       c05Run,
		Finish: func(r *core.Result) error {
			for _, f := range []string{"map-sites-reached", "c05:accepted", "c05:rejected", "c05:clause:a", "c05:clause:b", "c05:clause:c", "c05:clause:d", "c05:clause:e", "c05:builder-reuse", "c05:sparse-metadata", "c05:parsed-from-dsl"} {
				if !r.Flags[f] {
					return fmt.Errorf("C05: guard %q never exercised", f)
				}
			}
			return nil
		},
		Replay: func(ctx *core.Ctx, c json.RawMessage) {
			var cs wgCase
			if err := json.Unmarshal(c, &cs); err != nil {
				panic(err)
			}
			rg, o := wgReplay(&cs)
			ae := *rg.Analyse(ref.EdgeWise)
			an := rg.Analyse(ref.OperandWise)
			c05One(ctx, gen.Tagged{Tag: cs.Tag, M: cs.Model}, rg, an, &ae, o, cs.Choices, cs.Extra == "pinned", cs.Earlier)
		},
	})
	core.Register(&core.Check{
		ID: "C06",
		Rule: wgRule + "Differential oracle: identical verdict and identical canonical dump (weights, wildcard sets, edge kinds, conditions; operators identified structurally) on all schedules; " +
			"also under every permutation of the type-definition list, and identical relation weights under every permutation of the operands of each union/intersection. " +
			"Repeated invocations: every ordered pair over ~100 mixed models built in a row on ONE builder value - the second result must equal a fresh builder's. " +
			"Concurrent builds are covered by C13's interleaving exploration. states = distinct dumps, non-trivial = distinct models",
		Assume:    wgAssume,
		Technique: "exhaustive exploration of map-iteration schedules and input permutations with a differential oracle",
		Run:       c06Run,
		Finish: func(r *core.Result) error {
			for _, f := range []string{"map-sites-reached", "c06:accepted", "c06:rejected", "c06:type-permutations", "c06:commuted", "c06:builder-reuse"} {
				if !r.Flags[f] {
					return fmt.Errorf("C06: guard %q never exercised", f)
				}
			}
			return nil
		},
		Replay: func(ctx *core.Ctx, c json.RawMessage) {
			var cs wgCase
			if err := json.Unmarshal(c, &cs); err != nil {
				panic(err)
			}
			rg, o := wgReplay(&cs)
			var d0 *wgObs
			pm := ref.ToProto(cs.Model)
			rt.Run(nil, nil, func() { d0 = wgBuild(pm) })
			a, b := wgDump(rg, d0), wgDump(rg, o)
			if a != b {
				kind, what := "depends-on-map-order", "replayed schedule differs from the default schedule"
				if cs.Earlier != nil {
					kind, what = "result-depends-on-earlier-build", "the used builder gives another result than a fresh one"
				}
				ctx.Violation(kind, what, cs, a, b)
			}
		},
	})
}
