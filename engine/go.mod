module verif

go 1.23.0

require (
	github.com/antlr4-go/antlr/v4 v4.13.1
	github.com/hashicorp/go-multierror v1.1.1
	github.com/openfga/api/proto v0.0.0-20250127102726-f9709139a369
	github.com/openfga/language/pkg/go v0.0.0
	gonum.org/v1/gonum v0.16.0
	google.golang.org/protobuf v1.36.6
	gopkg.in/yaml.v3 v3.0.1
)

require (
	github.com/envoyproxy/protoc-gen-validate v1.2.1 // indirect
	github.com/grpc-ecosystem/grpc-gateway/v2 v2.26.3 // indirect
	github.com/hashicorp/errwrap v1.1.0 // indirect
	github.com/oklog/ulid/v2 v2.1.0 // indirect
	golang.org/x/exp v0.0.0-20250305212735-054e65f0b394 // indirect
	golang.org/x/net v0.37.0 // indirect
	golang.org/x/sys v0.31.0 // indirect
	golang.org/x/text v0.23.0 // indirect
	google.golang.org/genproto/googleapis/api v0.0.0-20250311190419-81fb87f6b8bf // indirect
	google.golang.org/genproto/googleapis/rpc v0.0.0-20250311190419-81fb87f6b8bf // indirect
	google.golang.org/grpc v1.71.0 // indirect
)

replace github.com/openfga/language/pkg/go => /repo/pkg/go
