module verif

go 1.23.0

require github.com/openfga/language/pkg/go v0.0.0

replace github.com/openfga/language/pkg/go => /repo/pkg/go
