// Package vsync stands in for the standard sync package inside the repository's packages in the sched variant (the
// instrumenter rewrites `import "sync"` to this package, keeping the name `sync`). Mutexes report to the cooperative
// scheduler of verif/rt: every lock operation is a scheduling point and a blocked thread is disabled instead of blocking the
// process (a real sync.Mutex held by a descheduled controlled thread would stall the whole exploration). Pool is a plain
// LIFO stack: every Put is handed to the next Get, deterministically - the sharing a pool permits at most. Outside a
// controlled execution the mutexes behave like the standard ones.
package vsync

import (
	"sync"

	"verif/rt"
)

type Locker = sync.Locker

type Mutex struct{ s rt.MutexState }

func (m *Mutex) Lock()   { m.s.Lock() }
func (m *Mutex) Unlock() { m.s.Unlock() }
func (m *Mutex) TryLock() bool {
	return m.s.TryLock()
}

type RWMutex struct{ s rt.MutexState }

func (m *RWMutex) Lock()    { m.s.Lock() }
func (m *RWMutex) Unlock()  { m.s.Unlock() }
func (m *RWMutex) RLock()   { m.s.RLock() }
func (m *RWMutex) RUnlock() { m.s.RUnlock() }
func (m *RWMutex) TryLock() bool {
	return m.s.TryLock()
}

type rlocker RWMutex

func (r *rlocker) Lock()   { (*RWMutex)(r).RLock() }
func (r *rlocker) Unlock() { (*RWMutex)(r).RUnlock() }

// RLocker returns a Locker whose Lock and Unlock are RLock and RUnlock.
func (m *RWMutex) RLocker() Locker { return (*rlocker)(m) }

// Once: the first Do runs f under the shim mutex; later calls see done (read without the mutex once it is set, as the
// standard implementation does with an atomic).
type Once struct {
	m    Mutex
	done bool
}

func (o *Once) Do(f func()) {
	rt.Yield("once.Do")
	if o.done {
		return
	}
	o.m.Lock()
	defer o.m.Unlock()
	if !o.done {
		defer func() { o.done = true }()
		f()
	}
}

func OnceFunc(f func()) func() {
	var o Once
	return func() { o.Do(f) }
}

func OnceValue[T any](f func() T) func() T {
	var o Once
	var v T
	return func() T { o.Do(func() { v = f() }); return v }
}

func OnceValues[T1, T2 any](f func() (T1, T2)) func() (T1, T2) {
	var o Once
	var v1 T1
	var v2 T2
	return func() (T1, T2) { o.Do(func() { v1, v2 = f() }); return v1, v2 }
}

// Pool hands every object put back to the next Get (last in, first out).
type Pool struct {
	New   func() any
	items []any
}

func (p *Pool) Get() any {
	rt.Yield("pool.Get")
	if n := len(p.items); n > 0 {
		x := p.items[n-1]
		p.items = p.items[:n-1]
		return x
	}
	if p.New != nil {
		return p.New()
	}
	return nil
}

func (p *Pool) Put(x any) {
	rt.Yield("pool.Put")
	if x == nil {
		return
	}
	p.items = append(p.items, x)
}

// The remaining types are the standard ones (a controlled thread that blocks in them is reported as lost by the scheduler's
// watchdog; the repository does not use them).
type (
	WaitGroup = sync.WaitGroup
	Map       = sync.Map
	Cond      = sync.Cond
)

func NewCond(l Locker) *Cond { return sync.NewCond(l) }
