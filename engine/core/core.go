// Package core is the check framework: sharding over worker processes,
// result merging, evidence files, known findings, replay artefacts.
package core

import (
	"context"
	"crypto/sha256"
	"encoding/binary"
	"encoding/hex"
	"encoding/json"
	"fmt"
	"hash/fnv"
	"os"
	"os/exec"
	"path/filepath"
	"sort"
	"strconv"
	"strings"
	"sync"
	"time"
)

// Check is one registered property check.
type Check struct {
	ID        string
	Rule      string   // how cases are enumerated, what counts as distinct / non-trivial
	Assume    []string // assumptions / trusted base
	Technique string
	// Run is executed in every worker process. It must visit exactly the
	// cases with ctx.Mine(i) and report through ctx.
	Run func(ctx *Ctx)
	// Finish runs in the parent on the merged result: vacuity guards. A
	// returned error is an infrastructure error (exit 2).
	Finish func(r *Result) error
	// Replay re-executes one recorded case; it reports through ctx exactly as
	// Run does.
	Replay func(ctx *Ctx, c json.RawMessage)
	// Workers overrides the number of worker processes (0 = default).
	Workers int
}

// Violation is one counterexample.
type Violation struct {
	Kind     string          `json:"kind"`
	What     string          `json:"what"`
	Case     json.RawMessage `json:"case"`
	Expected string          `json:"expected,omitempty"`
	Observed string          `json:"observed,omitempty"`
}

// Partial is what one worker reports.
type Partial struct {
	Evaluations int64             `json:"evaluations"`
	Transitions int64             `json:"transitions"`
	Validated   int64             `json:"validated"`
	Counters    map[string]int64  `json:"counters"`
	Flags       map[string]bool   `json:"flags"`
	Samples     []json.RawMessage `json:"samples"`
	Violations  []Violation       `json:"violations"`
	Known       map[string]int64  `json:"known"`      // finding id -> matches
	KnownWhat   map[string]string `json:"known_what"` // finding id -> first description
	Exhaustive  bool              `json:"exhaustive"` // false if a cap was hit
	Caps        []string          `json:"caps"`       // which caps
	Notes       []string          `json:"notes"`
	StatesFile  string            `json:"states_file"` // binary uint64 hashes
	NontrivFile string            `json:"nontriv_file"`
}

// Ctx is handed to Check.Run inside a worker.
type Ctx struct {
	Tier     string
	Shard    int
	N        int
	Seed     int64
	Deadline time.Time
	p        Partial
	states   map[uint64]struct{}
	nontriv  map[uint64]struct{}
	mu       sync.Mutex
	maxViol  int
}

func newCtx(tier string, shard, n int, seed int64, deadline time.Time) *Ctx {
	return &Ctx{Tier: tier, Shard: shard, N: n, Seed: seed, Deadline: deadline,
		p:      Partial{Counters: map[string]int64{}, Flags: map[string]bool{}, Known: map[string]int64{}, KnownWhat: map[string]string{}, Exhaustive: true},
		states: map[uint64]struct{}{}, nontriv: map[uint64]struct{}{}, maxViol: 20}
}

// Thorough reports whether the thorough tier is running.
func (c *Ctx) Thorough() bool { return c.Tier == "thorough" }

// Mine tells whether case number i belongs to this worker.
func (c *Ctx) Mine(i int) bool {
	if c.N <= 1 {
		return true
	}
	// the seed only rotates the assignment of cases to workers
	return (i+int(c.Seed%int64(c.N))+c.N)%c.N == c.Shard
}

// Expired reports whether the wall-clock cap is reached. A check that stops
// because of it must call Cap.
func (c *Ctx) Expired() bool { return !c.Deadline.IsZero() && time.Now().After(c.Deadline) }

// Cap records that a cap ended part of the enumeration early.
func (c *Ctx) Cap(what string) {
	c.mu.Lock()
	defer c.mu.Unlock()
	c.p.Exhaustive = false
	for _, x := range c.p.Caps {
		if x == what {
			return
		}
	}
	c.p.Caps = append(c.p.Caps, what)
}

// Eval counts n evaluated cases (inputs).
func (c *Ctx) Eval(n int) { c.mu.Lock(); c.p.Evaluations += int64(n); c.mu.Unlock() }

// Trans counts n executions / transitions run on the implementation.
func (c *Ctx) Trans(n int) {
	c.mu.Lock()
	c.p.Transitions += int64(n)
	c.p.Validated += int64(n)
	c.mu.Unlock()
}

// Count adds to a named coverage counter.
func (c *Ctx) Count(name string, n int) { c.mu.Lock(); c.p.Counters[name] += int64(n); c.mu.Unlock() }

// Counter reads a named coverage counter of this worker.
func (c *Ctx) Counter(name string) int64 { c.mu.Lock(); defer c.mu.Unlock(); return c.p.Counters[name] }

// Flag records that a situation a vacuity guard asks for was exercised.
func (c *Ctx) Flag(name string) { c.mu.Lock(); c.p.Flags[name] = true; c.mu.Unlock() }

// Note records a free-text note for the evidence.
func (c *Ctx) Note(s string) {
	c.mu.Lock()
	defer c.mu.Unlock()
	for _, x := range c.p.Notes {
		if x == s {
			return
		}
	}
	if len(c.p.Notes) < 20 {
		c.p.Notes = append(c.p.Notes, s)
	}
}

func h64(s string) uint64 {
	h := fnv.New64a()
	h.Write([]byte(s))
	return h.Sum64()
}

// State records a distinct canonical outcome/state.
func (c *Ctx) State(key string) { c.mu.Lock(); c.states[h64(key)] = struct{}{}; c.mu.Unlock() }

// Nontrivial records a distinct non-trivial case.
func (c *Ctx) Nontrivial(key string) { c.mu.Lock(); c.nontriv[h64(key)] = struct{}{}; c.mu.Unlock() }

// Sample keeps the first few cases of this worker for the evidence file.
func (c *Ctx) Sample(v any) {
	c.mu.Lock()
	defer c.mu.Unlock()
	if len(c.p.Samples) >= 3 {
		return
	}
	b, err := json.Marshal(v)
	if err == nil {
		c.p.Samples = append(c.p.Samples, b)
	}
}

// WantSample tells whether Sample would still keep something (to avoid
// building sample values for nothing).
func (c *Ctx) WantSample() bool { return len(c.p.Samples) < 3 }

// Violation records a counterexample. cs must be a JSON-encodable case that
// Replay understands.
func (c *Ctx) Violation(kind, what string, cs any, expected, observed string) {
	c.mu.Lock()
	defer c.mu.Unlock()
	c.p.Counters["violations_total"]++
	// keep one per kind beyond the first few, so that distinct kinds are all visible
	n := 0
	for _, v := range c.p.Violations {
		if v.Kind == kind {
			n++
		}
	}
	if n >= 3 || len(c.p.Violations) >= c.maxViol {
		return
	}
	b, _ := json.Marshal(cs)
	c.p.Violations = append(c.p.Violations, Violation{Kind: kind, What: what, Case: b, Expected: clip(expected), Observed: clip(observed)})
}

func clip(s string) string {
	if len(s) > 4000 {
		return s[:4000] + "…"
	}
	return s
}

// Known records a match of a known finding (KNOWN_FINDINGS.json id).
func (c *Ctx) Known(id, what string) {
	c.mu.Lock()
	defer c.mu.Unlock()
	c.p.Known[id]++
	if _, ok := c.p.KnownWhat[id]; !ok {
		c.p.KnownWhat[id] = what
	}
}

// Result is the merged outcome of all workers.
type Result struct {
	Partial
	States   int
	Nontriv  int
	Wall     float64
	Workers  int
	Replayed bool
}

// ---------------------------------------------------------------------------
// known findings

// Finding is one entry of KNOWN_FINDINGS.json.
type Finding struct {
	Property  string `json:"property"`
	ID        string `json:"id"`
	Status    string `json:"status"` // known | fixed
	Signature string `json:"signature"`
	What      string `json:"what"`
	Commit    string `json:"commit,omitempty"`
}

var findings []Finding
var findingsLoaded bool

// VerifDir is the root of the verification tree.
func VerifDir() string {
	if d := os.Getenv("VERIF_DIR"); d != "" {
		return d
	}
	return "/verif"
}

func loadFindings() {
	if findingsLoaded {
		return
	}
	findingsLoaded = true
	b, err := os.ReadFile(filepath.Join(VerifDir(), "KNOWN_FINDINGS.json"))
	if err != nil {
		return
	}
	var f struct {
		Findings []Finding `json:"findings"`
	}
	if err := json.Unmarshal(b, &f); err != nil {
		fmt.Fprintf(os.Stderr, "KNOWN_FINDINGS.json: %v\n", err)
		os.Exit(2)
	}
	findings = f.Findings
}

// IsKnown tells whether finding id is listed with status "known" (a fixed
// entry suppresses nothing).
func IsKnown(id string) bool {
	loadFindings()
	for _, f := range findings {
		if f.ID == id && f.Status == "known" {
			return true
		}
	}
	return false
}

// ---------------------------------------------------------------------------
// process driver

var registry = map[string]*Check{}

// Extra holds additional subcommands of the vcheck binary (e.g. the free-running race pass).
var Extra = map[string]func(args []string){}

// Register adds a check.
func Register(c *Check) { registry[c.ID] = c }

// Main is the entry point of the vcheck binary.
//
//	vcheck <ID> [-tier quick|thorough] [-workers n] [-cap seconds]
//	vcheck replay <file>
//	vcheck -worker <ID> <tier> <shard> <n> <seed> <deadline-unix> <out>
func Main() {
	args := os.Args[1:]
	if len(args) == 0 {
		fmt.Fprintln(os.Stderr, "usage: vcheck <ID> [-tier quick|thorough] | replay <file>")
		os.Exit(2)
	}
	if args[0] == "-worker" {
		workerMain(args[1:])
		return
	}
	if args[0] == "replay" {
		replayMain(args[1:])
		return
	}
	if f, ok := Extra[args[0]]; ok {
		f(args[1:])
		return
	}
	if args[0] == "list" {
		ids := []string{}
		for id := range registry {
			ids = append(ids, id)
		}
		sort.Strings(ids)
		fmt.Println(strings.Join(ids, " "))
		return
	}
	id := args[0]
	ck := registry[id]
	if ck == nil {
		fmt.Fprintf(os.Stderr, "unknown check %s\n", id)
		os.Exit(2)
	}
	tier := os.Getenv("VERIF_TIER")
	if tier == "" {
		tier = "quick"
	}
	workers := 16
	capS := 0
	for i := 1; i < len(args); i++ {
		switch args[i] {
		case "-tier":
			i++
			tier = args[i]
		case "-workers":
			i++
			workers, _ = strconv.Atoi(args[i])
		case "-cap":
			i++
			capS, _ = strconv.Atoi(args[i])
		default:
			if args[i] == "quick" || args[i] == "thorough" {
				tier = args[i]
			}
		}
	}
	if tier != "quick" && tier != "thorough" {
		fmt.Fprintf(os.Stderr, "bad tier %q\n", tier)
		os.Exit(2)
	}
	if ck.Workers > 0 {
		workers = ck.Workers
	}
	if capS == 0 {
		if v := os.Getenv("VERIF_CAP_S"); v != "" {
			capS, _ = strconv.Atoi(v)
		}
	}
	if capS == 0 {
		capS = 240
		if tier == "thorough" {
			capS = 3000
		}
	}
	seed := int64(0)
	if v := os.Getenv("VERIF_SEED"); v != "" {
		seed, _ = strconv.ParseInt(v, 10, 64)
		if seed < 0 {
			seed = -seed
		}
	}
	os.Exit(parentMain(ck, tier, workers, seed, capS))
}

func workDir() string {
	d := filepath.Join(VerifDir(), ".work", "run")
	os.MkdirAll(d, 0o755)
	return d
}

func parentMain(ck *Check, tier string, workers int, seed int64, capS int) int {
	start := time.Now()
	deadline := start.Add(time.Duration(capS) * time.Second)
	dir, err := os.MkdirTemp(workDir(), ck.ID+"-")
	if err != nil {
		fmt.Fprintln(os.Stderr, err)
		return 2
	}
	defer os.RemoveAll(dir)
	self, _ := os.Executable()
	type wres struct {
		p   *Partial
		err error
		log string
	}
	res := make([]wres, workers)
	var wg sync.WaitGroup
	for w := 0; w < workers; w++ {
		wg.Add(1)
		go func(w int) {
			defer wg.Done()
			out := filepath.Join(dir, fmt.Sprintf("w%d.json", w))
			// a worker observes the wall-clock cap itself; one that is still alive long after it is stuck outside every
			// place where the cap is looked at (code under test that blocks or loops for ever): it is killed, and the run ends as
			// an infrastructure error rather than never
			hard := time.Until(deadline) + time.Duration(2*capS+600)*time.Second
			cctx, cancel := context.WithTimeout(context.Background(), hard)
			defer cancel()
			cmd := exec.CommandContext(cctx, self, "-worker", ck.ID, tier, strconv.Itoa(w), strconv.Itoa(workers),
				strconv.FormatInt(seed, 10), strconv.FormatInt(deadline.Unix(), 10), out)
			cmd.Env = append(os.Environ(), "GOMAXPROCS=2")
			b, err := cmd.CombinedOutput()
			res[w].log = string(b)
			if cctx.Err() != nil {
				res[w].err = fmt.Errorf("worker %d did not end within %v after the wall-clock cap (the code under test blocks or loops outside the explorer's control); killed", w, time.Duration(2*capS+600)*time.Second)
				return
			}
			if err != nil {
				res[w].err = fmt.Errorf("worker %d: %v", w, err)
				return
			}
			pb, err := os.ReadFile(out)
			if err != nil {
				res[w].err = err
				return
			}
			p := &Partial{}
			if err := json.Unmarshal(pb, p); err != nil {
				res[w].err = err
				return
			}
			res[w].p = p
		}(w)
	}
	wg.Wait()
	r := &Result{Workers: workers}
	r.Counters = map[string]int64{}
	r.Flags = map[string]bool{}
	r.Known = map[string]int64{}
	r.KnownWhat = map[string]string{}
	r.Exhaustive = true
	states := map[uint64]struct{}{}
	nontriv := map[uint64]struct{}{}
	for w := range res {
		if res[w].log != "" {
			fmt.Fprint(os.Stderr, res[w].log)
		}
		if res[w].err != nil {
			fmt.Fprintf(os.Stderr, "INFRASTRUCTURE ERROR: %v\n", res[w].err)
			return 2
		}
		p := res[w].p
		r.Evaluations += p.Evaluations
		r.Transitions += p.Transitions
		r.Validated += p.Validated
		for k, v := range p.Counters {
			r.Counters[k] += v
		}
		for k, v := range p.Flags {
			if v {
				r.Flags[k] = true
			}
		}
		for k, v := range p.Known {
			r.Known[k] += v
			if _, ok := r.KnownWhat[k]; !ok {
				r.KnownWhat[k] = p.KnownWhat[k]
			}
		}
		if len(r.Samples) < 6 {
			r.Samples = append(r.Samples, p.Samples...)
		}
		r.Violations = append(r.Violations, p.Violations...)
		if !p.Exhaustive {
			r.Exhaustive = false
		}
		for _, c := range p.Caps {
			found := false
			for _, x := range r.Caps {
				found = found || x == c
			}
			if !found {
				r.Caps = append(r.Caps, c)
			}
		}
		for _, n := range p.Notes {
			found := false
			for _, x := range r.Notes {
				found = found || x == n
			}
			if !found {
				r.Notes = append(r.Notes, n)
			}
		}
		readHashes(p.StatesFile, states)
		readHashes(p.NontrivFile, nontriv)
	}
	r.States = len(states)
	r.Nontriv = len(nontriv)
	r.Wall = time.Since(start).Seconds()

	if ck.Finish != nil && len(r.Violations) == 0 {
		if err := ck.Finish(r); err != nil {
			wallCapped := false
			for _, c := range r.Caps {
				wallCapped = wallCapped || strings.Contains(c, "wall-clock cap")
			}
			if !wallCapped {
				fmt.Fprintf(os.Stderr, "INFRASTRUCTURE ERROR (vacuity guard): %v\n", err)
				writeEvidence(ck, tier, seed, r, 0)
				return 2
			}
			// the wall-clock cap ended the run before every part was reached (a starved machine): that is neither a verdict
			// nor a defect of the check; the evidence says what was not reached (exhaustive:false)
			r.Notes = append(r.Notes, "ended by the wall-clock cap before every part of the check was reached: "+err.Error())
			fmt.Fprintf(os.Stderr, "note: %s ended by the wall-clock cap before every part was reached (%v); exhaustive=false\n", ck.ID, err)
		}
	}
	return report(ck, tier, seed, r)
}

func readHashes(file string, into map[uint64]struct{}) {
	if file == "" {
		return
	}
	b, err := os.ReadFile(file)
	if err != nil {
		return
	}
	for i := 0; i+8 <= len(b); i += 8 {
		into[binary.LittleEndian.Uint64(b[i:])] = struct{}{}
	}
}

func writeHashes(file string, set map[uint64]struct{}) {
	b := make([]byte, 0, 8*len(set))
	for h := range set {
		b = binary.LittleEndian.AppendUint64(b, h)
	}
	os.WriteFile(file, b, 0o644)
}

func report(ck *Check, tier string, seed int64, r *Result) int {
	ids := []string{}
	for id := range r.Known {
		ids = append(ids, id)
	}
	sort.Strings(ids)
	for _, id := range ids {
		fmt.Printf("KNOWN-FINDING: property=%s %s: %s (matched %d cases, e.g. %s)\n", ck.ID, id, findingWhat(id), r.Known[id], r.KnownWhat[id])
	}
	nv := 0
	seen := map[string]bool{}
	for _, v := range r.Violations {
		sum := sha256.Sum256(append([]byte(v.Kind+"\x00"), v.Case...))
		name := fmt.Sprintf("%s-%s.json", ck.ID, hex.EncodeToString(sum[:6]))
		if seen[name] {
			continue
		}
		seen[name] = true
		path := filepath.Join(VerifDir(), "replays", name)
		os.MkdirAll(filepath.Dir(path), 0o755)
		art := map[string]any{"property": ck.ID, "kind": v.Kind, "what": v.What, "case": v.Case, "expected": v.Expected, "observed": v.Observed,
			"replay_cmd": "bin/check replay " + path}
		b, _ := json.MarshalIndent(art, "", " ")
		os.WriteFile(path, b, 0o644)
		fmt.Printf("VIOLATION property=%s replay=%s\n", ck.ID, path)
		fmt.Printf("  kind=%s %s\n", v.Kind, oneLine(v.What))
		nv++
	}
	total := int(r.Counters["violations_total"])
	if total < nv {
		total = nv
	}
	writeEvidence(ck, tier, seed, r, total)
	fmt.Printf("%s %s: evaluations=%d executions=%d states=%d nontrivial=%d exhaustive=%v wall=%.1fs violations=%d\n",
		ck.ID, tier, r.Evaluations, r.Transitions, r.States, r.Nontriv, r.Exhaustive, r.Wall, total)
	if nv > 0 {
		return 1
	}
	return 0
}

func oneLine(s string) string {
	s = strings.ReplaceAll(s, "\n", "\\n")
	if len(s) > 300 {
		s = s[:300] + "…"
	}
	return s
}

func findingWhat(id string) string {
	loadFindings()
	for _, f := range findings {
		if f.ID == id {
			return f.What
		}
	}
	return ""
}

func writeEvidence(ck *Check, tier string, seed int64, r *Result, violations int) {
	if strings.HasPrefix(ck.ID, "Z") {
		return // debugging aids (ZSTEPS, ZC16) are not checks of a property: they leave no evidence file
	}
	samples := []any{}
	for _, s := range r.Samples {
		var v any
		if json.Unmarshal(s, &v) == nil {
			samples = append(samples, v)
		}
		if len(samples) >= 6 {
			break
		}
	}
	if len(samples) == 0 {
		samples = append(samples, "no sample recorded")
	}
	cov := map[string]any{
		"evaluations":                   r.Evaluations,
		"distinct_nontrivial":           r.Nontriv,
		"rule":                          ck.Rule,
		"samples":                       samples,
		"states":                        r.States,
		"transitions":                   r.Transitions,
		"traces_validated_against_impl": r.Validated,
		"exhaustive":                    r.Exhaustive,
		"workers":                       r.Workers,
	}
	if len(r.Caps) > 0 {
		cov["caps_hit"] = r.Caps
	}
	if len(r.Notes) > 0 {
		cov["notes"] = r.Notes
	}
	keys := []string{}
	for k := range r.Counters {
		keys = append(keys, k)
	}
	sort.Strings(keys)
	cnt := map[string]int64{}
	for _, k := range keys {
		cnt[k] = r.Counters[k]
	}
	cov["counters"] = cnt
	fl := []string{}
	for k := range r.Flags {
		fl = append(fl, k)
	}
	sort.Strings(fl)
	cov["guards_exercised"] = fl
	if len(r.Known) > 0 {
		cov["known_findings_matched"] = r.Known
	}
	ev := map[string]any{
		"property_id": ck.ID,
		"tier":        tier,
		"seed":        seed,
		"level":       "model_checking",
		"coverage":    cov,
		"assumptions": ck.Assume,
		"wall_s":      r.Wall,
		"violations":  violations,
		"technique":   ck.Technique,
	}
	b, _ := json.MarshalIndent(ev, "", " ")
	dir := filepath.Join(VerifDir(), "evidence")
	if repo := os.Getenv("VERIF_REPO"); repo != "" && repo != "/repo" {
		// a run against a scratch copy (seeded change, mutant) says nothing about /repo: keep it out of the evidence directory
		dir = filepath.Join(VerifDir(), ".work", "evidence-scratch")
	}
	os.MkdirAll(dir, 0o755)
	os.WriteFile(filepath.Join(dir, ck.ID+".json"), append(b, '\n'), 0o644)
}

func workerMain(a []string) {
	if len(a) != 7 {
		fmt.Fprintln(os.Stderr, "bad worker args")
		os.Exit(2)
	}
	ck := registry[a[0]]
	shard, _ := strconv.Atoi(a[2])
	n, _ := strconv.Atoi(a[3])
	seed, _ := strconv.ParseInt(a[4], 10, 64)
	dl, _ := strconv.ParseInt(a[5], 10, 64)
	ctx := newCtx(a[1], shard, n, seed, time.Unix(dl, 0))
	ck.Run(ctx)
	ctx.p.StatesFile = a[6] + ".states"
	ctx.p.NontrivFile = a[6] + ".nontriv"
	writeHashes(ctx.p.StatesFile, ctx.states)
	writeHashes(ctx.p.NontrivFile, ctx.nontriv)
	b, _ := json.Marshal(&ctx.p)
	if err := os.WriteFile(a[6], b, 0o644); err != nil {
		fmt.Fprintln(os.Stderr, err)
		os.Exit(2)
	}
}

func replayMain(a []string) {
	if len(a) != 1 {
		fmt.Fprintln(os.Stderr, "usage: vcheck replay <file>")
		os.Exit(2)
	}
	b, err := os.ReadFile(a[0])
	if err != nil {
		fmt.Fprintln(os.Stderr, err)
		os.Exit(2)
	}
	var art struct {
		Property string          `json:"property"`
		Kind     string          `json:"kind"`
		Case     json.RawMessage `json:"case"`
	}
	if err := json.Unmarshal(b, &art); err != nil {
		fmt.Fprintln(os.Stderr, err)
		os.Exit(2)
	}
	ck := registry[art.Property]
	if ck == nil || ck.Replay == nil {
		fmt.Fprintf(os.Stderr, "check %s has no replay in this binary variant\n", art.Property)
		os.Exit(2)
	}
	// schedule-dependent cases must reproduce identically five times
	var first string
	for i := 0; i < 5; i++ {
		ctx := newCtx("quick", 0, 1, 0, time.Time{})
		ck.Replay(ctx, art.Case)
		vb, _ := json.Marshal(ctx.p.Violations)
		if i == 0 {
			first = string(vb)
		} else if string(vb) != first {
			fmt.Printf("REPLAY UNSTABLE: run %d differs from run 0\n", i)
			os.Exit(2)
		}
		if i == 4 {
			if len(ctx.p.Violations) == 0 && len(ctx.p.Known) == 0 {
				fmt.Println("replay: no violation (5/5 runs)")
				os.Exit(0)
			}
			for id := range ctx.p.Known {
				fmt.Printf("KNOWN-FINDING: property=%s %s\n", art.Property, id)
			}
			for _, v := range ctx.p.Violations {
				fmt.Printf("VIOLATION property=%s replay=%s\n  kind=%s %s\n  expected: %s\n  observed: %s\n", art.Property, a[0], v.Kind, oneLine(v.What), oneLine(v.Expected), oneLine(v.Observed))
			}
			if len(ctx.p.Violations) > 0 {
				os.Exit(1)
			}
			os.Exit(0)
		}
	}
}
