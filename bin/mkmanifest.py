#!/usr/bin/env python3
"""Writes /verif/MANIFEST.json from the table below (single source of truth for the interface)."""
import json, os
ROOT = os.path.dirname(os.path.dirname(os.path.abspath(__file__)))

CHECKS = {
 "C18": dict(
   text="All strings up to a bounded length over one representative per character class the rule strings distinguish, plus boundary-length families around every documented limit, go through all nine validators and must agree with a regex-free reference written from the property; the decomposition facts are also checked literally on the implementation's answers; the five rule strings are compared with the JS and Java sources.",
   note="Whitespace = RE2 \\s; JS/Java are bound only through rule-string equality; lengths beyond the bound only via boundary families.",
   technique="bounded exhaustive input enumeration against a reference model",
   design="3/C18"),
}
ALL = ["C%02d" % i for i in range(1, 20)]
NOT_YET = {}
for c in ALL:
    if c not in CHECKS:
        NOT_YET[c] = "check not built yet in this revision of /verif (planned in DESIGN.md section 3); not claimed until it passes on the unchanged tree"

m = {
 "version": 1,
 "setup_cmd": "bin/setup",
 "hooks": {
   "guard": "verif",
   "enable": "instrumentation is injected at build time with `go build -tags verif,safe -overlay <generated overlay.json>`; the overlay is regenerated from /repo's working tree on every check run; no hook is committed to /repo",
   "baseline_off_cmd": "cd /repo/pkg/go && go test -mod=mod -vet=off -count=1 ./...",
   "source_commits": [],
   "add_only": True,
 },
 "engines": [
   {"name": "vcheck", "path": "engine", "serves_properties": sorted(CHECKS), "kind_free_text": "hand-written Go explorer: choice machine (rt.Choose) with deviation-bounded stateless DFS, controlled map iteration injected by source rewriting through go build -overlay, exhaustive bounded input enumerators, reference models; sharded over 16 worker processes"},
 ],
 "checks": [],
 "not_applicable": [{"property_id": k, "reason": v} for k, v in sorted(NOT_YET.items())],
 "notes": "See DESIGN.md. bin/check <id> <tier> rebuilds from /repo's working tree. Exit 0 held, 1 VIOLATION, 2 infrastructure error.",
}
for cid in sorted(CHECKS):
    c = CHECKS[cid]
    m["checks"].append({
      "property_id": cid,
      "quick_cmd": "bin/check %s quick" % cid,
      "thorough_cmd": "bin/check %s thorough" % cid,
      "evidence_file": "/verif/evidence/%s.json" % cid,
      "replay_cmd_template": "bin/check replay {path}",
      "engine": "vcheck",
      "level_claimed": {"category": "model_checking", "text": c["text"], "design_ref": c["design"]},
      "level_note": c["note"],
      "technique": c["technique"],
    })
json.dump(m, open(os.path.join(ROOT, "MANIFEST.json"), "w"), indent=1)
print("wrote MANIFEST.json with", len(m["checks"]), "checks")
