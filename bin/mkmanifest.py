#!/usr/bin/env python3
"""Writes /verif/MANIFEST.json from the table below (single source of truth for the interface)."""
import json, os
ROOT = os.path.dirname(os.path.dirname(os.path.abspath(__file__)))

CHECKS = {
 "C13": dict(
   text="(1) strict snapshot of every generated model before and after every printer / graph / utils call and of module file slices around the merger; (2) explicit-state breadth-first search over the states of the process-global ANTLR caches (keyed by the serialised DFAs) with the real parse entry points and the other public calls as transitions, successor = cache reset + history replay + one call, invariant on every transition: output equals the cold output and every object returned earlier in the history still renders as when it was returned; the alphabet includes calls that fail part-way and one weighted-graph builder value that lives as long as the process; (3) stateless exploration of all interleavings of two (thorough: three) concurrent public calls within a preemption bound, scheduling points injected at every statement of the repository's packages and at every antlr lock operation, caches reset per execution: each result equals the sequential one, shared inputs unchanged, no deadlock or panic; (4) the same bodies free-running in a separate -race build. Rounds 10-11: twin inputs (same names - and the same model id - with other content) for parser, printer and both graph builders, two calls on one shared builder value, fga.mod calls (complete, lacking a field, rejected by the YAML decoder after its fields were filled); the sched variant owns process state inside the repository's packages: sync is rewritten to a scheduler-aware shim (mutexes, Once, LIFO pool) and package-level variables are restored before every execution by generated code, so a cache or pool that a change adds yields a deterministic counterexample instead of a stalled or diverging exploration.",
   note="Statement-level scheduling granularity; unsynchronised accesses below it are the race detector's part, which only sees races that occur in its free-running pass; protobuf, regexp and ulid are atomic.",
   technique="preemption-bounded stateless exploration of thread interleavings (controlled scheduler) + explicit-state BFS over cache states + race-detector pass",
   design="3/C13"),
 "C19": dict(
   text="Serialised ATNs extracted from the six generated sources and six .interp files are decoded by an own deserialiser and the Go x JS x Java automata are walked in lock step from every rule and mode start state (state kind, rule, flags, decision number, every transition with label sets compared by content; dangling states must coincide); rule/literal/symbolic/channel/mode names and .tokens numbering are compared across packages and with the names declared in the .g4 files; generated listeners are complete and the hand-written Go listener names existing rules only; the rule-body skeletons of the generated Go, TypeScript and Java parsers (states, matches, rule calls, decisions, look-ahead token sets) are compared element by element; grammar-derived sentences, their single-token mutations and subtree replacements are replayed on the generated Go lexer and parser.",
   note="JS and Java parsers cannot be executed offline: they are bound through automaton, vocabulary and rule-body skeleton identity; token numbering rule of ANTLR (tokens{} first, then non-fragment rules without type()) is assumed.",
   technique="explicit-state lock-step exploration of the product of the three automata plus replay of grammar-derived sentences on the implementation",
   design="3/C19"),
 "C08": dict(
   text="All short lexeme strings in 10 grammar contexts through every DSL and module entry point (accepted texts continue through printer and both graph builders), JSON and YAML token strings and JSON value replacements through their entry points, every single and pair of protobuf degradations (nil/empty/dropped/renamed parts) through printer, plain graph and weighted builder: no panic, result xor error, unlexable characters outside comments always rejected; work measured as deterministic instrumented step counts from a cold parser: horizon 5e7 steps and growth exponent <= 2.5 between n and 2n repetitions of every short fragment in every insertion context, for nested pumping (open^n inner close^n), and - against the wire size of the model - for scaled model families through printer and both graph builders (fixed shapes, deep operator trees, and every cell family: n levels of two relations over a 9 x 8 menu of level-to-level rewrites, open or closed into one tuple cycle), the weighted builder additionally from every start node of its depth-first weight assignment. Round 8 additions: 24 representative raw byte sequences (control characters, every kind of invalid UTF-8, BOM, Unicode separators, astral characters) at every byte offset of 13 documents (pairs at every third offset), in a JSON model and a manifest, and pumped; on every enumerated text the module merger must agree with the single-file parser (an unreadable file makes the merge fail, nothing a readable file declares is lost); a fifth base model with every kind of restriction as first and only entry of its list (this exposed genuine defect F16, fixed). Round 11: scaled protobuf-only shapes (n direct assignments under one operator x n repeated restrictions, n unary operators, n repeated operands) through printer, plain graph and weighted builder separately, work measured in steps and in bytes allocated; corpus mutations replace pieces; C16's look-alike file sets through the merger under every style.",
   note="Step counts come from build-time instrumentation of repository, antlr runtime, generated parser and yaml.v3; asymptotics judged at n=32/64 (fragments), depth 16/32 (nesting) and 8..64 levels (families) only; known findings F11 (form feed runs, fragment signature) and F14 (cubic weight assignment on chains of diamonds closed into a tuple cycle, family + exponent-interval signature) are the only suppressions.",
   technique="bounded exhaustive enumeration of inputs and fault combinations with panic guard and deterministic step-count horizon",
   design="3/C08"),
 "C15": dict(
   text="Every path string up to length 5/6 over the 15-character alphabet of the property (bare and with .fga / %2Efga / %2efga), alone and behind good entries, plus 16 entry sets in 15 YAML presentations and 25 malformed manifests: accepted manifests return schema 1.2 and only relative, dot-dot-free, backslash-free .fga paths, verbatim and in order where no % + \\ occurs, nothing filtered; every entry unsafe by the reference decoder is rejected with an error located at it; reported positions equal the generator's offsets.",
   note="Over-rejection of reference-safe paths is allowed by the statement; yaml.v3 is atomic; anchored values may be located at anchor or value.",
   technique="bounded exhaustive enumeration of path strings and YAML presentations against a reference decoder with a source-position oracle",
   design="3/C15"),
 "C17": dict(
   text="Models with parallel lines, repeated operands, nesting, cycles and defective TTUs are built, rendered, reversed twice, queried for cycles and for paths between all ordered label pairs, under every single-deviation schedule of the repository's and the graph library's map iteration (parallel-line maps fully permuted): structure equals the reference graph in both directions, drawing direction flips, rev(rev(g)).GetDOT() == g.GetDOT(), one DOT text per model over all executions, PathExists agrees with reference reachability in g and reversed in rev(g), label lookup, compile-time-cycle and acyclic flags. Round 9: same-target family in both operand orders and TTU pairs.",
   note="gonum's map iteration is owned by replacing its reflect-based iterators (build tag safe) and rewriting its range-over-map statements; operand order across different nodes is not observable in a multigraph and not compared; edge conditions of the plain graph have no accessor.",
   technique="exhaustive exploration of map-iteration schedules in repository and graph library against a reference graph and reachability",
   design="3/C17"),
 "C04": dict(
   text="Every model of the graph alphabet (all leaves and all binary operator combinations for two relations x tupleset variants, plus three-relation cyclic and nested families) is built under every map-iteration schedule within the budgets (start orders fully permuted on small graphs); on every accepted execution all node and edge weights must equal a reference computed on the AST graph: type sets as least fixpoint with operand-level semantics, weights as longest hop count in the type-relevant subgraph, Infinite iff a cycle is reachable. Rounds 9-10: TTU-pair family (two or three tuple-to-usersets under one operator over the same or different tuplesets, type sets {user}, {group}, both, group+user:*); rename schemes (every name prefixed with R - the letter of the builder's internal R# placeholder -, operator words as names, extended identifiers) on a selection of the cycle-rich families.",
   note="Former known finding F10 (edge-wise evaluation of intersection/exclusion operands) is repaired in /repo (8bf67d8); its defect model stays in the check but is inert (a fixed entry suppresses nothing); map order is owned by build-time rewriting; operators matched structurally.",
   technique="exhaustive schedule exploration x bounded exhaustive model enumeration against a reference weight semantics",
   design="3/C04"),
 "C05": dict(
   text="Same exploration; on every schedule the verdict must be 'rejected with one of the three sentinel errors' exactly when the reference predicate finds the model ill-founded (rewrite-only cycle, intersection/exclusion on a cycle, TTU over an unrestricted/undefined tupleset or a parent lacking the relation, empty intersection, relation without terminal type).",
   note="No suppression is active (F10 is repaired); TTU-defect models are injected at every operand position; the verdict is also judged on a builder value that has built another model before.",
   technique="exhaustive schedule exploration x bounded exhaustive model enumeration against a reference well-foundedness predicate",
   design="3/C05"),
 "C06": dict(
   text="Same exploration with a purely differential oracle: one verdict and one canonical dump (weights, wildcard sets, edge kinds, conditions; operators identified structurally) across all schedules, across every permutation of the type-definition list, and identical relation weights across every permutation of the operands of each union/intersection. The concurrent-build clause is decided by C13's interleaving exploration.",
   note="'Verdict' is accepted/rejected as the statement says; which sentinel a rejection carries is not compared.",
   technique="exhaustive exploration of map-iteration schedules and input permutations with a differential oracle",
   design="3/C06"),
 "C10": dict(
   text="Structure alphabet (duplicate/mixed conditioned restrictions, repeated operands, direct assignment twice under one operator, depth-3 nesting, repeated parent types; every ordered list of 1-4 distinct conditions on one target as terminal type, userset, wildcard and tupleset parent) plus the graph alphabet (incl. tupleset lists with repeated parents, same-target operands): on every accepted execution an ordered parallel traversal of reference graph and real graph must agree on nodes, edge order, kinds, targets, tupleset labels and ordered condition sets; the model is unchanged by Build.",
   note="Conditions on TTU edges and identical TTU operands under one operator are outside what the statement fixes.",
   technique="bounded exhaustive model enumeration x map schedules against a reference graph construction",
   design="3/C10"),
 "C11": dict(
   text="Wildcard alphabet (public restrictions in every leaf position, inside and behind tuple cycles, under intersections/exclusions, distinct public types on both sides of a cycle; the many-public-types family - a relation assignable to every ordered list of 1-4 public types reached by one or two parents with public types of their own; the cycle-publics family - two relations on a tuple cycle with public types before/after their usersets and a relation behind the cycle) plus the graph alphabet, all schedules: node wildcard list = set of public types reachable along the real edges, edge list = target's set, no duplicates.",
   note="Judged on well-founded accepted models; C10 vouches for the edges.",
   technique="exhaustive schedule exploration x bounded exhaustive model enumeration against a reachability reference",
   design="3/C11"),
 "C07": dict(
   text="All module file sets within the bounds (2-3 files, <= 2-3 declarations each from a menu of 13, plus malformed members; the many-extenders family of four files with up to three extensions of one type; the two-targets family of one file extending two types), each also under other layout styles, x every permutation of the file list x schema versions x map-iteration schedules of the merger: success exactly when the reference merge over the generator's declarations says so; on success the exact attributed union (also via GetModuleForObjectTypeRelation) and the requested schema version; on failure no model, no panic, and for every reference conflict an error naming a participating file. Round 10: every third set again with all files handed over under one name.",
   note="File names within a set are distinct; 'names the offending file' is demanded for the four conflict kinds only (parse failures and 'file is not a module' have no file field in the API).",
   technique="bounded exhaustive enumeration of file sets x permutations x map schedules against a reference merge",
   design="3/C07"),
 "C12": dict(
   text="The same file sets x all permutations of the file list x all map-iteration schedules of the merger within 2/3 deviations (all orders for the small maps these sets produce): identical model or identical error list (message, file, line, column, order) on every schedule; same verdict and, on success, equal models up to type-definition order across permutations. Round 10: every third set again with all files handed over under one name.",
   note="Every permutation of a map is a behaviour the Go specification allows; map order is owned by build-time source rewriting.",
   technique="exhaustive exploration of map-iteration schedules and input permutations with a differential oracle",
   design="3/C12"),
 "C16": dict(
   text="(bounds) every string of <= 3/4 lexemes appended to 10 valid document prefixes: every syntax error lies inside the input; (exact) every listener-level injection at every site x layouts: the error stands on the offending name according to the renderer's source map; (merge) every conflict-carrying file set plus look-alike sets x file orders x layout styles: File and Line are those of a conflicting declaration. The look-alike sets are systematic: the conflicting name continued or preceded by every character an extended identifier may hold, before and after the conflict, and the name in other roles. Round 10: keyword-named types (type, extend, module, model) inside multi-line restriction lists before the conflict (found F18).",
   note="Positions are read from the public Error() text / exported fields; lines split on \\n, columns in code points; merge error columns are not claimed by the property.",
   technique="bounded exhaustive enumeration of texts and injections x layouts with a source-map oracle",
   design="3/C16"),
 "C09": dict(
   text="Valid base models x every single injection from the catalogue of structural rule violations x every injection site (operand position, nesting depth, declaration position) x renderings; both DSL entry points must return a non-nil error and no model.",
   note="Each injected text is invalid by construction against the pinned grammar and listener rules; bases are accepted (C03).",
   technique="bounded exhaustive fault injection: models x catalogue x sites x layouts",
   design="3/C09"),
 "C14": dict(
   text="Plain and modular models x both option values x permutations of the type-definition list x all schedules of the printer's three map-iteration sites (controlled iteration injected by source rewriting; each site fully permuted, plus all pairs of deviations) x JSON key orders: one byte string per (model, option), declarations in the documented order (independent sort), stripped source-information output equals plain output and parses to the same model; every model printed again after each of six failing variants of itself gives the same text. JSON encodings: 4 key orders x 3 styles (compact; white space around every token with \\u-escaped strings; absent optional parts as explicit defaults). Twin names (case, natural order, separators) tied on (module, file).",
   note="Map order is owned through build-time rewriting of every range-over-map in pkg/go/transformer; protojson is atomic; items with a file but no module count as unattributed.",
   technique="exhaustive exploration of map-iteration schedules (stateless DFS over injected choice points) x input permutations",
   design="3/C14"),
 "C01": dict(
   text="Every rendering (canonical, every single layout deviation, every uniform style) of every generated full model is pushed through parse/print/parse/print/parse/print, in memory on the parser's own pointer and through the JSON-string API; printing must succeed, the re-parsed model must equal the first (expressions modulo surrounding whitespace), and from the second text on nothing may move (byte stability).",
   note="Domain = texts written by the reference renderer from the model families (all DSL-conform rewrite shapes to 3/4 leaves, identifier classes incl. keywords, restriction lists, all 24 parameter types, expression alphabet); other accepted byte strings are not enumerated.",
   technique="bounded exhaustive enumeration of models x layouts with a differential round-trip oracle",
   design="3/C01"),
 "C02": dict(
   text="All rewrite trees up to 3/4 leaves (operators with 1-3 children, depth <= 3, direct assignment in any position and multiplicity) x restriction lists, as protobuf and as JSON text: conversion must succeed exactly when the reference predicate expressible() holds, fail with the unsupported-nesting error otherwise, and parse(print(M)) must equal the reference normal form of M; IsRelationAssignable must agree with the presence of [..].",
   note="Relations with a direct assignment carry >= 1 restriction; zero-child operators and absent operands are C08's domain; '//' in expressions excluded.",
   technique="bounded exhaustive enumeration of rewrite trees against a reference predicate and normal form",
   design="3/C02"),
 "C03": dict(
   text="Models x all renderings within a layout-deviation budget (every single deviation at every optional layout element of the combined lexer+parser grammar, pairs on tiny models, every uniform style) are parsed by both DSL entry points and compared with the model that was written (independent AST -> protobuf reference). Grammar-level comments (tab-indented, reaching the generated multiLineComment rule) at every site where the grammar allows them, twin names (case, natural order, separators) in every name position. Round 9-10: trailing material on the last line (found F17), comments behind wide gaps, physical lines of 1 KB to 1 MB (comment, blank, trailing blanks, one-line restriction list of up to 20000 entries).",
   note="Layout sites are those of the two .g4 files enumerated in the renderer; constructs the combined grammar does not permit (NEWLINE between condition parameters, tab-indented comment lines) are never generated.",
   technique="deviation-bounded exhaustive exploration of layout choice points against a reference renderer/AST",
   design="3/C03"),
 "C18": dict(
   text="All strings up to a bounded length over one representative per character class the rule strings distinguish, plus boundary-length families around every documented limit, go through all nine validators and must agree with a regex-free reference written from the property; the decomposition facts are also checked literally on the implementation's answers; the five rule strings are compared with the JS and Java sources.",
   note="Whitespace = RE2 \\s; JS/Java are bound only through rule-string equality; lengths beyond the bound only via boundary families.",
   technique="bounded exhaustive input enumeration against a reference model",
   design="3/C18"),
}
# the size sweeps (DESIGN.md 2.3) joined these checks late; one sentence for all of them
SWEEPS = {
 "dsl": " Size sweeps: one dimension of a model (operands, relations, types, conditions, parameters, list entries, nesting depth, name and line length) scaled through sizes 4..128 around common thresholds, contents in scrambled order, declarations before and after the large part.",
 "graph": " Size sweeps: operands, relations, types on one tuple cycle, restrictions, chains of n hops, parent types, public types, conditions on one edge scaled through n = 13, 33, 65 (quick), built under the default schedule and from every first start node of the weight assignment.",
 "merge": " Size sweeps: n files extending one type, one extension with n relations, n extend blocks, n types and n conditions (n = 5, 13, 33 quick), each with a conflict in the middle; file lists longer than four in five orders.",
}
for cid, kind in {"C01": "dsl", "C02": "dsl", "C03": "dsl", "C09": "dsl", "C13": "dsl", "C14": "dsl", "C16": "dsl",
                  "C04": "graph", "C05": "graph", "C06": "graph", "C10": "graph", "C11": "graph", "C17": "graph",
                  "C07": "merge", "C12": "merge"}.items():
    if cid in CHECKS and "Size sweeps" not in CHECKS[cid]["text"]:
        CHECKS[cid]["text"] += SWEEPS[kind]
ALL = ["C%02d" % i for i in range(1, 20)]
NOT_YET = {}
for c in ALL:
    if c not in CHECKS:
        NOT_YET[c] = "check not built yet in this revision of /verif (planned in DESIGN.md section 3); not claimed until it passes on the unchanged tree"

m = {
 "version": 1,
 "setup_cmd": "bin/setup",
 "hooks": {
   "guard": "verif",
   "enable": "instrumentation is injected at build time with `go build -tags verif,safe -overlay <generated overlay.json>`; the overlay is regenerated from /repo's working tree on every check run; no hook is committed to /repo",
   "baseline_off_cmd": "cd /repo/pkg/go && go test -mod=mod -vet=off -count=1 ./...",
   "source_commits": [],
   "add_only": True,
 },
 "engines": [
   {"name": "vcheck", "path": "engine", "serves_properties": sorted(CHECKS), "kind_free_text": "hand-written Go explorer: choice machine (rt.Choose) with deviation-bounded stateless DFS, controlled map iteration injected by source rewriting through go build -overlay, exhaustive bounded input enumerators, reference models; sharded over 16 worker processes"},
 ],
 "checks": [],
 "not_applicable": [{"property_id": k, "reason": v} for k, v in sorted(NOT_YET.items())],
 "notes": "See DESIGN.md. bin/check <id> <tier> rebuilds from /repo's working tree. Exit 0 held, 1 VIOLATION, 2 infrastructure error.",
}
for cid in sorted(CHECKS):
    c = CHECKS[cid]
    m["checks"].append({
      "property_id": cid,
      "quick_cmd": "bin/check %s quick" % cid,
      "thorough_cmd": "bin/check %s thorough" % cid,
      "evidence_file": "/verif/evidence/%s.json" % cid,
      "replay_cmd_template": "bin/check replay {path}",
      "engine": "vcheck",
      "level_claimed": {"category": "model_checking", "text": c["text"], "design_ref": c["design"]},
      "level_note": c["note"],
      "technique": c["technique"],
    })
json.dump(m, open(os.path.join(ROOT, "MANIFEST.json"), "w"), indent=1)
print("wrote MANIFEST.json with", len(m["checks"]), "checks")
