package main

import (
	"os"
	"path/filepath"
	"strings"
)

// gonumPkgs are the third-party packages whose map iteration the plain-graph
// check (C17) has to own: native `range <map>` statements are rewritten like
// the repository's; the reflect-based iterators are replaced (staticOverlays).
var gonumPkgs = []string{
	"gonum.org/v1/gonum/graph/multi",
	"gonum.org/v1/gonum/graph/topo",
	"gonum.org/v1/gonum/graph/internal/set",
	"gonum.org/v1/gonum/graph/traverse",
	"gonum.org/v1/gonum/graph/set/uid",
}

// staticOverlays returns hand-written replacement files for third-party code
// (never copies of repository files, which would mask edits).
func staticOverlays(mode string) map[string]string {
	out := map[string]string{}
	// hook file added to package gen in every instrumented variant (build tag verif)
	{
		src := filepath.Join(*verifDir, "instr", "static", "zz_verif_hooks.go.txt")
		b, err := os.ReadFile(src)
		if err != nil {
			fatal("static overlay %s missing", src)
		}
		dst := filepath.Join(*outDir, "static_zz_verif_hooks.go")
		if err := os.WriteFile(dst, b, 0o644); err != nil {
			fatal("%v", err)
		}
		out[filepath.Join(*repo, "pkg", "go", "gen", "zz_verif_hooks.go")] = dst
	}
	if mode == "sched" {
		modcache := os.Getenv("GOMODCACHE")
		if modcache == "" {
			home, _ := os.UserHomeDir()
			modcache = filepath.Join(home, "go", "pkg", "mod")
		}
		target := filepath.Join(modcache, "github.com", "antlr4-go", "antlr", "v4@v4.13.1", "mutex.go")
		if _, err := os.Stat(target); err != nil {
			fatal("antlr mutex.go not found in module cache: %v", err)
		}
		b, err := os.ReadFile(filepath.Join(*verifDir, "instr", "static", "antlr_mutex.go.txt"))
		if err != nil {
			fatal("%v", err)
		}
		dst := filepath.Join(*outDir, "static_antlr_mutex.go")
		if err := os.WriteFile(dst, b, 0o644); err != nil {
			fatal("%v", err)
		}
		out[target] = dst
	}
	if mode != "maps" && mode != "steps" {
		return out
	}
	modcache := os.Getenv("GOMODCACHE")
	if modcache == "" {
		home, _ := os.UserHomeDir()
		modcache = filepath.Join(home, "go", "pkg", "mod")
	}
	self, _ := os.Executable()
	_ = self
	static := filepath.Join(*verifDir, "instr", "static")
	dir := filepath.Join(modcache, "gonum.org", "v1", "gonum@v0.16.0", "graph", "iterator")
	for _, f := range []string{"nodes_map_safe.go", "lines_map_safe.go"} {
		src := filepath.Join(static, "gonum_"+strings.TrimSuffix(f, ".go")+".go.txt")
		if _, err := os.Stat(src); err != nil {
			fatal("static overlay %s missing", src)
		}
		if _, err := os.Stat(filepath.Join(dir, f)); err != nil {
			fatal("gonum iterator file %s not found in module cache", filepath.Join(dir, f))
		}
		// the overlay target must end in .go: copy next to the generated files
		dst := filepath.Join(*outDir, "static_gonum_"+f)
		b, _ := os.ReadFile(src)
		if err := os.WriteFile(dst, b, 0o644); err != nil {
			fatal("%v", err)
		}
		out[filepath.Join(dir, f)] = dst
	}
	return out
}
