package main

// gonumPkgs are the third-party packages whose map iteration the plain-graph
// check (C17) has to own.
var gonumPkgs = []string{}

// staticOverlays returns hand-written replacement files for third-party code
// (never copies of repository files, which would mask edits).
func staticOverlays(mode string) map[string]string {
	return map[string]string{}
}
