// instr generates a `go build -overlay` from the *current* working tree of the
// repository under check: instrumented copies of its packages (and of selected
// third-party packages) in which every source of nondeterminism is routed
// through verif/rt. Nothing is written to the repository.
//
//	instr -mode maps|sched|steps -repo /repo -out <dir> [-modfile=...]
//
// Modes (cumulative where noted):
//
//	maps   every `range <map>` becomes controlled iteration (rt.Iter / rt.Iter2)
//	sched  maps + rt.Yield before every statement + antlr mutex shim
//	steps  rt.Step at every function entry and loop iteration
package main

import (
	"bytes"
	"encoding/json"
	"flag"
	"fmt"
	"go/ast"
	"go/token"
	"go/types"
	"os"
	"path/filepath"
	"sort"
	"strings"

	"golang.org/x/tools/go/packages"
)

type edit struct {
	pos  int // byte offset
	end  int // replace [pos,end)
	text string
}

type fileEdits struct {
	path       string
	src        []byte
	edits      []edit
	keepImport []string // imports whose only uses may have been rewritten away
}

var (
	mode      = flag.String("mode", "maps", "maps|sched|steps")
	repo      = flag.String("repo", "/repo", "repository root")
	outDir    = flag.String("out", "", "output directory")
	modfile   = flag.String("modfile", "", "alternative go.mod (scratch copies)")
	engineDir = flag.String("engine", "/verif/engine", "engine module directory (packages are resolved from there)")
	verifDir  = flag.String("verif", "/verif", "verification tree root")
)

const repoMod = "github.com/openfga/language/pkg/go"

func fatal(format string, a ...any) {
	fmt.Fprintf(os.Stderr, "instr: "+format+"\n", a...)
	os.Exit(2)
}

func main() {
	flag.Parse()
	if *outDir == "" {
		fatal("-out required")
	}
	overlay := map[string]string{}
	report := map[string]any{"mode": *mode}

	var pats []string
	switch *mode {
	case "maps":
		pats = []string{repoMod + "/transformer", repoMod + "/graph", repoMod + "/utils", repoMod + "/validation", repoMod + "/errors"}
		pats = append(pats, gonumPkgs...)
	case "sched":
		pats = []string{repoMod + "/transformer", repoMod + "/graph", repoMod + "/utils", repoMod + "/validation", repoMod + "/errors"}
	case "steps":
		pats = []string{repoMod + "/transformer", repoMod + "/graph", repoMod + "/utils", repoMod + "/validation", repoMod + "/errors",
			"github.com/antlr4-go/antlr/v4", "gopkg.in/yaml.v3", repoMod + "/gen"}
		// map iteration of the repository and of gonum is owned here too: a step count must not depend on the run
		pats = append(pats, gonumPkgs...)
	default:
		fatal("unknown mode %s", *mode)
	}
	cfg := &packages.Config{
		Mode:       packages.NeedName | packages.NeedFiles | packages.NeedSyntax | packages.NeedTypes | packages.NeedTypesInfo | packages.NeedCompiledGoFiles | packages.NeedImports | packages.NeedDeps,
		BuildFlags: []string{"-tags=safe"},
		Dir:        *engineDir,
		Env:        append(os.Environ(), "GOFLAGS=-mod=mod", "GOPROXY=off", "GOSUMDB=off", "GOTOOLCHAIN=local"),
	}
	if *modfile != "" {
		cfg.BuildFlags = append(cfg.BuildFlags, "-modfile="+*modfile)
	}
	pkgs, err := packages.Load(cfg, pats...)
	if err != nil {
		fatal("load: %v", err)
	}
	if packages.PrintErrors(pkgs) > 0 {
		fatal("packages contain errors")
	}
	sites := []string{}
	for _, p := range pkgs {
		for i, f := range p.Syntax {
			path := p.CompiledGoFiles[i]
			if strings.HasSuffix(path, "_test.go") {
				continue
			}
			src, err := os.ReadFile(path)
			if err != nil {
				fatal("%v", err)
			}
			fe := &fileEdits{path: path, src: src}
			inRepo := strings.HasPrefix(p.PkgPath, repoMod)
			switch *mode {
			case "maps":
				sites = append(sites, instrMaps(p, f, fe, inRepo)...)
			case "sched":
				sites = append(sites, instrMaps(p, f, fe, inRepo)...)
				instrYield(p, f, fe)
				if inRepo {
					instrSync(p, f, fe)
					instrGlobals(p, f, fe)
				}
			case "steps":
				gonum := strings.HasPrefix(p.PkgPath, "gonum.org/")
				if gonum || (inRepo && p.PkgPath != repoMod+"/gen") {
					sites = append(sites, instrMaps(p, f, fe, inRepo)...)
				}
				if !gonum {
					instrSteps(p, f, fe)
				}
			}
			if len(fe.edits) == 0 {
				continue
			}
			out := apply(p, f, fe)
			rel := strings.ReplaceAll(strings.TrimPrefix(path, "/"), "/", "__")
			dst := filepath.Join(*outDir, rel)
			if err := os.WriteFile(dst, out, 0o644); err != nil {
				fatal("%v", err)
			}
			overlay[path] = dst
		}
	}
	// ownership audit (maps mode): every gonum package the repository reaches must either be instrumented or be free
	// of map iteration; otherwise an order source would stay native without anybody noticing
	if *mode == "maps" {
		instrumented := map[string]bool{"gonum.org/v1/gonum/graph/iterator": true}
		for _, p := range pkgs {
			instrumented[p.PkgPath] = true
		}
		seen := map[string]bool{}
		var audit func(p *packages.Package)
		audit = func(p *packages.Package) {
			if seen[p.PkgPath] {
				return
			}
			seen[p.PkgPath] = true
			if strings.HasPrefix(p.PkgPath, "gonum.org/v1/gonum/") && !instrumented[p.PkgPath] {
				for _, f := range p.Syntax {
					ast.Inspect(f, func(n ast.Node) bool {
						if rs, ok := n.(*ast.RangeStmt); ok {
							if tv, ok := p.TypesInfo.Types[rs.X]; ok {
								if _, isMap := tv.Type.Underlying().(*types.Map); isMap {
									fatal("%s: package %s is reached by the repository, iterates a map and is not instrumented", p.Fset.Position(rs.Pos()), p.PkgPath)
								}
							}
						}
						return true
					})
				}
			}
			for _, ip := range p.Imports {
				if strings.HasPrefix(ip.PkgPath, "gonum.org/v1/gonum/") || strings.HasPrefix(ip.PkgPath, repoMod) {
					audit(ip)
				}
			}
		}
		for _, p := range pkgs {
			if strings.HasPrefix(p.PkgPath, repoMod) {
				audit(p)
			}
		}
		audited := []string{}
		for k := range seen {
			if strings.HasPrefix(k, "gonum.org/") {
				audited = append(audited, k)
			}
		}
		sort.Strings(audited)
		report["gonum_packages_reached"] = audited
	}
	// static overlay files
	for src, dst := range staticOverlays(*mode) {
		overlay[src] = dst
	}
	sort.Strings(sites)
	report["map_range_sites"] = sites
	report["files_rewritten"] = len(overlay)
	b, _ := json.MarshalIndent(map[string]any{"Replace": overlay}, "", " ")
	if err := os.WriteFile(filepath.Join(*outDir, "overlay.json"), b, 0o644); err != nil {
		fatal("%v", err)
	}
	rb, _ := json.MarshalIndent(report, "", " ")
	os.WriteFile(filepath.Join(*outDir, "report.json"), rb, 0o644)
}

func apply(p *packages.Package, f *ast.File, fe *fileEdits) []byte {
	// import goes right after the package clause
	nameEnd := p.Fset.Position(f.Name.End()).Offset
	imp := "; import verifrt \"verif/rt\""
	fe.edits = append(fe.edits, edit{pos: nameEnd, end: nameEnd, text: imp})
	seen := map[string]bool{}
	for _, k := range fe.keepImport {
		if !seen[k] {
			seen[k] = true
			// the rewritten call may have been the only use of the standard maps package in this file
			fe.edits = append(fe.edits, edit{pos: len(fe.src), end: len(fe.src), text: fmt.Sprintf("\nvar _ = %s.Keys[map[int]int]\n", k)})
		}
	}
	sort.SliceStable(fe.edits, func(i, j int) bool { return fe.edits[i].pos < fe.edits[j].pos })
	var out bytes.Buffer
	last := 0
	for _, e := range fe.edits {
		if e.pos < last {
			fatal("overlapping edits in %s", fe.path)
		}
		out.Write(fe.src[last:e.pos])
		out.WriteString(e.text)
		last = e.end
	}
	out.Write(fe.src[last:])
	return out.Bytes()
}

func funcName(p *packages.Package, fd *ast.FuncDecl) string {
	name := fd.Name.Name
	if fd.Recv != nil && len(fd.Recv.List) > 0 {
		t := fd.Recv.List[0].Type
		if s, ok := t.(*ast.StarExpr); ok {
			t = s.X
		}
		if ix, ok := t.(*ast.IndexExpr); ok {
			t = ix.X
		}
		if id, ok := t.(*ast.Ident); ok {
			name = id.Name + "." + name
		}
	}
	short := p.PkgPath[strings.LastIndex(p.PkgPath, "/")+1:]
	if !strings.HasPrefix(p.PkgPath, repoMod) {
		short = "ext/" + strings.TrimPrefix(p.PkgPath, "gonum.org/v1/gonum/")
	}
	return short + "." + name
}

// instrMaps rewrites every range over a map and refuses other map-order sources.
func instrMaps(p *packages.Package, f *ast.File, fe *fileEdits, strict bool) []string {
	var sites []string
	for _, d := range f.Decls {
		fd, ok := d.(*ast.FuncDecl)
		if !ok || fd.Body == nil {
			continue
		}
		fn := funcName(p, fd)
		idx := 0
		ast.Inspect(fd.Body, func(n ast.Node) bool {
			switch x := n.(type) {
			case *ast.RangeStmt:
				tv, ok := p.TypesInfo.Types[x.X]
				if !ok {
					fatal("%s: no type for range expression", p.Fset.Position(x.Pos()))
				}
				mt, isMap := tv.Type.Underlying().(*types.Map)
				if !isMap {
					return true
				}
				if !ordered(mt.Key()) {
					fatal("%s: range over map with unordered key type %s cannot be controlled", p.Fset.Position(x.Pos()), mt.Key())
				}
				site := fmt.Sprintf("%s#%d", fn, idx)
				idx++
				sites = append(sites, site)
				s := p.Fset.Position(x.X.Pos()).Offset
				e := p.Fset.Position(x.X.End()).Offset
				fnName := "Iter"
				if x.Value != nil {
					fnName = "Iter2"
				}
				fe.edits = append(fe.edits,
					edit{pos: s, end: s, text: fmt.Sprintf("verifrt.%s(%q, ", fnName, site)},
					edit{pos: e, end: e, text: ")"})
			case *ast.CallExpr:
				if sel, ok := x.Fun.(*ast.SelectorExpr); ok {
					if id, ok := sel.X.(*ast.Ident); ok {
						if pn, ok := p.TypesInfo.Uses[id].(*types.PkgName); ok {
							full := pn.Imported().Path() + "." + sel.Sel.Name
							switch full {
							case "maps.Keys", "maps.Values", "maps.All":
								// same iterator types as the controlled versions: replace the callee
								if len(x.Args) != 1 {
									fatal("%s: unexpected arity of %s", p.Fset.Position(x.Pos()), full)
								}
								tv, ok := p.TypesInfo.Types[x.Args[0]]
								mt, isMap := tv.Type.Underlying().(*types.Map)
								if !ok || !isMap || !ordered(mt.Key()) {
									fatal("%s: %s over a map whose key type cannot be ordered", p.Fset.Position(x.Pos()), full)
								}
								site := fmt.Sprintf("%s#%d", fn, idx)
								idx++
								sites = append(sites, site)
								repl := map[string]string{"maps.Keys": "Iter", "maps.Values": "IterValues", "maps.All": "Iter2"}[full]
								s := p.Fset.Position(x.Fun.Pos()).Offset
								e := p.Fset.Position(x.Lparen).Offset + 1
								fe.edits = append(fe.edits, edit{pos: s, end: e, text: fmt.Sprintf("verifrt.%s(%q, ", repl, site)})
								fe.keepImport = append(fe.keepImport, pn.Name())
							case "golang.org/x/exp/maps.Keys", "golang.org/x/exp/maps.Values":
								fatal("%s: %s is a map-order source the instrumenter does not control", p.Fset.Position(x.Pos()), full)
							}
						}
					}
					switch sel.Sel.Name {
					case "MapRange", "MapKeys":
						if strict {
							fatal("%s: reflect map iteration is a map-order source the instrumenter does not control", p.Fset.Position(x.Pos()))
						}
					case "Range":
						if tv, ok := p.TypesInfo.Types[sel.X]; ok && strings.Contains(tv.Type.String(), "protoreflect") {
							fatal("%s: protoreflect Range is a map-order source the instrumenter does not control", p.Fset.Position(x.Pos()))
						}
					}
				}
			}
			return true
		})
	}
	return sites
}

func ordered(t types.Type) bool {
	if tp, ok := t.(*types.TypeParam); ok {
		// a type parameter is ordered if every term of its constraint is
		iface, ok := tp.Constraint().Underlying().(*types.Interface)
		if !ok || iface.NumEmbeddeds() == 0 {
			return false
		}
		for i := 0; i < iface.NumEmbeddeds(); i++ {
			switch e := iface.EmbeddedType(i).(type) {
			case *types.Union:
				for j := 0; j < e.Len(); j++ {
					if !ordered(e.Term(j).Type()) {
						return false
					}
				}
			default:
				if !ordered(e) {
					return false
				}
			}
		}
		return true
	}
	b, ok := t.Underlying().(*types.Basic)
	if !ok {
		return false
	}
	return b.Info()&(types.IsInteger|types.IsFloat|types.IsString) != 0
}

// instrYield inserts a scheduling point before every statement of every
// function body (sched mode).
func instrYield(p *packages.Package, f *ast.File, fe *fileEdits) {
	for _, d := range f.Decls {
		fd, ok := d.(*ast.FuncDecl)
		if !ok || fd.Body == nil {
			continue
		}
		fn := funcName(p, fd)
		ast.Inspect(fd.Body, func(n ast.Node) bool {
			var list []ast.Stmt
			switch x := n.(type) {
			case *ast.BlockStmt:
				list = x.List
			case *ast.CaseClause:
				list = x.Body
			case *ast.CommClause:
				list = x.Body
			default:
				return true
			}
			for _, st := range list {
				switch st.(type) {
				case *ast.LabeledStmt, *ast.EmptyStmt, *ast.CaseClause, *ast.CommClause:
					continue
				}
				pos := p.Fset.Position(st.Pos())
				fe.edits = append(fe.edits, edit{pos: pos.Offset, end: pos.Offset, text: fmt.Sprintf("verifrt.Yield(%q); ", fmt.Sprintf("%s:%d", fn, pos.Line))})
			}
			return true
		})
	}
}

// instrSteps inserts rt.Step() at function entry and at the top of loop bodies.
// instrSync: `import "sync"` in a repository file becomes `import sync "verif/vsync"`: mutexes, Once and Pool of the
// repository's own code report to the cooperative scheduler (a real mutex held by a descheduled thread would stall it).
func instrSync(p *packages.Package, f *ast.File, fe *fileEdits) {
	for _, is := range f.Imports {
		if is.Path.Value != `"sync"` {
			continue
		}
		s, e := p.Fset.Position(is.Path.Pos()).Offset, p.Fset.Position(is.Path.End()).Offset
		text := `"verif/vsync"`
		if is.Name == nil {
			text = `sync "verif/vsync"`
		}
		fe.edits = append(fe.edits, edit{pos: s, end: e, text: text})
	}
}

// instrGlobals appends to a repository file an init function that registers, with the harness, a function restoring every
// package-level variable of the file to its initial value (its initialiser re-evaluated, or the zero value). The harness
// calls the registered functions wherever it returns the parser caches to their initial state: before every controlled
// execution and every history replay. State a change adds at package level (a memo, a pool, a lazily filled table) is then
// owned like the ANTLR caches - every execution starts from a fresh process state, replays are deterministic, and what
// such state does to results shows as a result, not as a replay divergence. Variables of type error or of a function
// type (sentinels), blank variables and variables assigned inside an init function are left alone.
func instrGlobals(p *packages.Package, f *ast.File, fe *fileEdits) {
	initAssigned := map[types.Object]bool{}
	for _, file := range p.Syntax {
		for _, d := range file.Decls {
			fd, ok := d.(*ast.FuncDecl)
			if !ok || fd.Recv != nil || fd.Name.Name != "init" || fd.Body == nil {
				continue
			}
			ast.Inspect(fd.Body, func(n ast.Node) bool {
				mark := func(e ast.Expr) {
					for {
						switch x := e.(type) {
						case *ast.Ident:
							if o := p.TypesInfo.Uses[x]; o != nil {
								initAssigned[o] = true
							}
							return
						case *ast.SelectorExpr:
							e = x.X
						case *ast.IndexExpr:
							e = x.X
						case *ast.StarExpr:
							e = x.X
						case *ast.ParenExpr:
							e = x.X
						default:
							return
						}
					}
				}
				switch x := n.(type) {
				case *ast.AssignStmt:
					for _, l := range x.Lhs {
						mark(l)
					}
				case *ast.IncDecStmt:
					mark(x.X)
				}
				return true
			})
		}
	}
	text := func(n ast.Node) string {
		return string(fe.src[p.Fset.Position(n.Pos()).Offset:p.Fset.Position(n.End()).Offset])
	}
	var body strings.Builder
	for _, d := range f.Decls {
		gd, ok := d.(*ast.GenDecl)
		if !ok || gd.Tok != token.VAR {
			continue
		}
		for _, sp := range gd.Specs {
			vs := sp.(*ast.ValueSpec)
			skip := false
			for _, n := range vs.Names {
				o := p.TypesInfo.Defs[n]
				if n.Name == "_" || o == nil || initAssigned[o] {
					skip = true
					break
				}
				switch t := o.Type().Underlying().(type) {
				case *types.Signature:
					skip = true
				case *types.Interface:
					if types.Identical(o.Type(), types.Universe.Lookup("error").Type()) {
						skip = true
					}
					_ = t
				}
			}
			if skip {
				continue
			}
			var names []string
			for _, n := range vs.Names {
				names = append(names, n.Name)
			}
			if len(vs.Values) > 0 {
				var vals []string
				for _, v := range vs.Values {
					vals = append(vals, text(v))
				}
				if vs.Type != nil && len(vs.Values) == len(vs.Names) {
					for i := range names {
						fmt.Fprintf(&body, "\t\t{ var verifZ %s = %s; %s = verifZ }\n", text(vs.Type), vals[i], names[i])
					}
				} else {
					fmt.Fprintf(&body, "\t\t%s = %s\n", strings.Join(names, ", "), strings.Join(vals, ", "))
				}
			} else {
				for _, n := range names {
					fmt.Fprintf(&body, "\t\t{ var verifZ %s; %s = verifZ }\n", text(vs.Type), n)
				}
			}
		}
	}
	if body.Len() == 0 {
		return
	}
	fe.edits = append(fe.edits, edit{pos: len(fe.src), end: len(fe.src),
		text: "\n\nfunc init() {\n\tverifrt.RegisterReset(func() {\n" + body.String() + "\t})\n}\n"})
}

func instrSteps(p *packages.Package, f *ast.File, fe *fileEdits) {
	ins := func(b *ast.BlockStmt) {
		if b == nil {
			return
		}
		off := p.Fset.Position(b.Lbrace).Offset + 1
		fe.edits = append(fe.edits, edit{pos: off, end: off, text: " verifrt.Step(); "})
	}
	ast.Inspect(f, func(n ast.Node) bool {
		switch x := n.(type) {
		case *ast.FuncDecl:
			ins(x.Body)
		case *ast.FuncLit:
			ins(x.Body)
		case *ast.ForStmt:
			ins(x.Body)
		case *ast.RangeStmt:
			ins(x.Body)
		}
		return true
	})
}

var _ = token.NoPos
